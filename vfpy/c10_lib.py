"""C10 helpers: the sandbox of canary files, the harness-side truth (independent of onnx_ir),
the audit-hook observer, the location / base-spelling generators and the read entry points.

Nothing in the truth computation calls onnx_ir: a location is resolved by the *kernel*
(``os.stat(location, dir_fd=<fd of the base directory>)``) and looked up by (st_dev, st_ino) in an
inventory of the files the harness itself created; the design's formulation (realpath
containment + S_ISREG + st_nlink == 1) is computed as a second, separate verdict and the two
must agree whenever the kernel can resolve the location (otherwise the harness is wrong and
the shard fails -> inconclusive).
"""

from __future__ import annotations

import hashlib
import io
import os
import shutil
import stat
import sys
import unicodedata
import warnings
from dataclasses import dataclass, field
from typing import Any, Callable

import numpy as np
import onnx
from onnx import TensorProto, helper

import onnx_ir as ir
from onnx_ir import external_data, serde

FILE_SIZE = 64  # canary header of every data file
# Every data file is SPARSE: the 64-byte canary header is followed by a hole up to BIG_FILE_SIZE, so
# that tensors of any size class (a few bytes ... 16 MiB) can be declared on any location of the
# sandbox at no disk cost; bytes are attributed by header + all-zero tail.
BIG_FILE_SIZE = (1 << 24) + FILE_SIZE
MODEL_NAMES = ("m.onnx", "m.textproto")

# --------------------------------------------------------------------------------------------
# sandbox
# --------------------------------------------------------------------------------------------

DIRS = [
    "work", "work/B", "work/B/sub", "work/B/sub/deep", "work/B/sub_evil", "work/B_evil",
    "work/B_evil/sub", "outside", "outside/sub", "scratch",
]
FILES = [
    "work/B/data.bin", "work/B/other.bin", "work/B/sub/inner.bin", "work/B/sub/deep/d.bin",
    "work/B/sub_evil/e.bin", "work/B/hl_inside_a.bin",
    "work/B_evil/evil.bin", "work/B_evil/data.bin", "work/B_evil/sub/inner.bin",
    "outside/secret.bin", "outside/secret2.bin", "outside/secret_hl.bin", "outside/secret_hl2.bin",
    "outside/data.bin", "outside/sub/s.bin",
    # decoys: same names as data files of work/B and work/B/sub, in directories that a lexically
    # collapsed "<symlink>/.." model path would wrongly take for the model directory
    "work/B_evil/inner.bin", "work/B_evil/other.bin", "outside/inner.bin", "outside/other.bin",
]
HARDLINKS = [  # (existing, new name)
    ("work/B/hl_inside_a.bin", "work/B/sub/hl_inside_b.bin"),  # hard-linked inside file
    ("outside/secret_hl.bin", "work/B/hl_to_out.bin"),  # hard link in B to an outside file
    ("outside/secret_hl2.bin", "work/B/sub/hl_to_out2.bin"),
]
SYMLINKS = [  # (link path, target text); "$R" is replaced by the sandbox root
    ("work/B/ln_in_file", "data.bin"),
    ("work/B/ln_in_file_abs", "$R/work/B/sub/inner.bin"),
    ("work/B/ln_in_dir", "sub"),
    ("work/B/ln_out_file", "../../outside/secret.bin"),
    ("work/B/ln_out_file_abs", "$R/outside/secret2.bin"),
    ("work/B/ln_out_dir", "../../outside"),
    ("work/B/ln_evil_dir", "../B_evil"),
    ("work/B/ln_evil_file", "../B_evil/evil.bin"),
    ("work/B/ln_to_hl", "hl_inside_a.bin"),
    ("work/B/ln_to_hl_out", "hl_to_out.bin"),
    ("work/B/ln_dangling", "nonexist.bin"),
    ("work/B/ln_loop", "ln_loop"),
    ("work/B/ln_self", "."),
    ("work/B/ln_parent", ".."),
    ("work/B/ln_chain", "ln_out_file"),
    ("work/B/ln_chain_in", "ln_in_file"),
    ("work/B/sub/ln_up_file", "../data.bin"),
    ("work/B/sub/ln_out_file", "../../../outside/secret.bin"),
    ("work/B/sub/ln_out_dir", "../../../outside"),
    ("work/B/sub/ln_sib_dir", "../sub_evil"),
    ("work/B/sub/ln_in_file", "deep/d.bin"),
    ("work/Blink", "B"),
    ("work/Blink_evil", "B_evil"),
    ("outside/ln_back", "../work/B"),
    # directory symlinks living in decoy directories and pointing at a *child* of a model directory
    ("work/B_evil/ln_to_Bsub", "../B/sub"), ("work/B_evil/ln_to_deep", "../B/sub/deep"),
    ("outside/ln_to_Bsub", "../work/B/sub"), ("outside/ln_to_deep", "../work/B/sub/deep"),
    # symlinked model files (dangling until a load case writes the model)
    ("work/B/ln_m.onnx", "m.onnx"), ("work/B/ln_m.textproto", "m.textproto"),
    ("work/B/sub/ln_m.onnx", "m.onnx"), ("work/B/sub/ln_m.textproto", "m.textproto"),
    ("outside/ln_m_B.onnx", "../work/B/m.onnx"), ("outside/ln_m_sub.onnx", "../work/B/sub/m.onnx"),
]
BASE_TARGETS = ("work/B", "work/B/sub")

# --- names that differ from a base directory / a legitimate file only under a FOLDING of names ----
# (letter case, Unicode normalisation form, a trailing dot or space).  On this case-sensitive,
# normalisation-preserving file system they are all different directory entries; an
# implementation that compares folded names takes them for the base directory.
# (a) neighbours of the two static base targets
DIRS += ["work/b", "work/b/sub", "work/B.", "work/B ", "work/\uff22",  # U+FF22 FULLWIDTH B (NFKC -> "B")
         "work/B/Sub", "work/B/SUB", "work/B/\u017fub", "work/B/sub.", "work/B/sub "]  # U+017F LONG S
FILES += ["work/b/data.bin", "work/b/other.bin", "work/b/only_b.bin", "work/b/sub/inner.bin",
          # single-linked files named like hard links / symlinks of work/B (a stat of a folded path lands here)
          "work/b/hl_to_out.bin", "work/b/ln_out_file",
          "work/B./data.bin", "work/B /data.bin", "work/\uff22/data.bin",
          "work/B/Sub/inner.bin", "work/B/SUB/inner.bin", "work/B/\u017fub/inner.bin",
          "work/B/sub./inner.bin", "work/B/sub /inner.bin",
          "work/B/DATA.bin",  # an own (allowed) file next to data.bin: a read must deliver ITS bytes
          "outside/secret_hl3.bin"]
HARDLINKS += [("outside/secret_hl3.bin", "work/B/Hl_Inside_A.bin")]  # case variant of a name, linked to outside
SYMLINKS += [
    ("work/B/Other.bin", "../../outside/other.bin"),  # case variant of other.bin leading outside
    ("work/B/ln_case_dir", "../b"), ("work/B/ln_case_file", "../b/data.bin"),
    ("work/B/ln_dotted_dir", "../B."), ("work/B/ln_spaced_file", "$R/work/B /data.bin"),
    ("work/B/ln_wide_dir", "../\uff22"),
    ("work/B/sub/ln_case_dir", "../Sub"), ("work/B/sub/ln_case_file", "../SUB/inner.bin"),
    ("work/B/sub/ln_longs_file", "$R/work/B/\u017fub/inner.bin"), ("work/B/sub/ln_dotted_dir", "../sub."),
    ("work/blink", "b"),
]

# (b) a family of directories whose names are pairwise equal under some folding; each of them is
# used as base directory, the others are then its neighbours.  The stem has a precomposed
# character (NFC != NFD) and an "s" (casefold("\u017f") == "s" while lower() keeps it).
FOLD_STEM = "Mod\u00e8les"


def name_variants(name: str) -> list[str]:
    nfd = unicodedata.normalize("NFD", name)
    wide = chr(0xFF21 + ord(name[0]) - ord("A")) + name[1:] if "A" <= name[0] <= "Z" else name
    cands = [name.lower(), name.upper(), name.swapcase(), nfd, nfd.lower(), name + ".", name + " ",
             name.lower() + ".", wide, name.replace("s", "\u017f")]
    out: list[str] = []
    for c in cands:
        if c != name and c not in out:
            out.append(c)
    return out


FOLD_NAMES = [FOLD_STEM] + name_variants(FOLD_STEM)
FOLD_TARGETS = tuple(f"fold/{n}" for n in FOLD_NAMES)
DIRS += ["fold"] + [d for t in FOLD_TARGETS for d in (t, t + "/sub")]
for _i, _t in enumerate(FOLD_TARGETS):
    FILES += [f"{_t}/data.bin", f"{_t}/sub/inner.bin", f"{_t}/only{_i}.bin"]
    SYMLINKS.append((f"fold/via{_i}", FOLD_NAMES[_i]))
    for _j, _n in enumerate(FOLD_NAMES):
        if _j != _i:
            SYMLINKS.append((f"{_t}/ln_d{_j}", f"../{_n}" if (_i + _j) % 2 else f"$R/fold/{_n}"))
            SYMLINKS.append((f"{_t}/ln_f{_j}", f"$R/fold/{_n}/data.bin" if (_i + _j) % 3 == 0 else f"../{_n}/data.bin"))


def is_fold_target(target: str) -> bool:
    return target.startswith("fold/")


def _fold_case(s: str) -> str:
    return s.casefold()


def _fold_unicode(s: str) -> str:
    return unicodedata.normalize("NFKC", s)


def _fold_trailing(s: str) -> str:
    return "/".join(c.rstrip(". ") or c for c in s.split("/"))


def name_variant_kind(rel: str, base_rel: str) -> str:
    """``rel`` (a file, relative to the sandbox root) does not lie under ``base_rel``.  Which
    folding of names would make it look as if it did?  '' if none.  Classification only."""
    parts = rel.split("/")
    n = base_rel.count("/") + 1
    if len(parts) <= n:
        return ""
    head = "/".join(parts[:n])
    if head == base_rel:
        return ""
    for kind, f in (("case", _fold_case), ("unicode-form", _fold_unicode), ("trailing-dot-space", _fold_trailing)):
        if f(head) == f(base_rel):
            return kind
    every = lambda s: _fold_case(_fold_unicode(_fold_trailing(_fold_unicode(s))))  # noqa: E731
    return "mixed" if every(head) == every(base_rel) else ""

# Mutable area for the stateful cases (a tensor object kept alive while the files under it or
# its base_dir change).  Self-contained: no hard link ever connects it with the static tree.
DYN_DIRS = ["dyn", "dyn/base", "dyn/base/sub", "dyn/base_evil", "dyn/out", "dyn/out/sub",
            "dyn/alt_sym", "dyn/alt_hl", "dyn/hold",
            "dyn/Base", "dyn/Base/sub"]  # differs from dyn/base only in letter case
DYN_FILES = ["dyn/base/w.bin", "dyn/base/other.bin", "dyn/base/sub/w2.bin", "dyn/base_evil/w.bin",
             "dyn/out/w.bin", "dyn/out/w_hl.bin", "dyn/out/sub/w2.bin",
             "dyn/Base/w.bin", "dyn/Base/sub/w2.bin"]
DYN_HARDLINKS = [("dyn/out/w_hl.bin", "dyn/alt_hl/w.bin")]
DYN_SYMLINKS = [
    ("dyn/base/ln_w", "w.bin"), ("dyn/alt_sym/w.bin", "../out/w.bin"), ("dyn/alt_sym/sub", "../out/sub"),
    ("dyn/alt_sym/ln_w", "../out/w.bin"), ("dyn/alt_hl/ln_w", "w.bin"), ("dyn/base_link", "base"),
]


def canary(rel: str) -> bytes:
    return hashlib.blake2b(("c10-canary:" + rel).encode(), digest_size=FILE_SIZE).digest()


def write_canary_file(path: str, header: bytes) -> None:
    """Create a sparse data file: ``header`` followed by a hole up to BIG_FILE_SIZE."""
    with open(path, "wb") as fh:
        fh.write(header)
        fh.truncate(BIG_FILE_SIZE)


@dataclass
class Entry:
    kind: str  # "file" | "dir"
    relpaths: list[str]
    nlink: int
    content: bytes | None = None  # the canary header (the rest of the file is a hole = zeros)
    dyn: bool = False
    size: int = 0


class Sandbox:
    def __init__(self, root: str, build: bool = True) -> None:
        if build:
            os.makedirs(root, exist_ok=False)
        self.R = os.path.realpath(root)
        if build:
            self._build()
        self.inv: dict[tuple[int, int], Entry] = {}
        self._scan()
        self.scratch = self.R + "/scratch"
        if build:
            for d in DYN_DIRS:
                os.mkdir(f"{self.R}/{d}")
            self.dyn_reset()
        else:
            self.scan_dyn()

    def _build(self) -> None:
        R = self.R
        for d in DIRS:
            os.mkdir(f"{R}/{d}")
        for f in FILES:
            write_canary_file(f"{R}/{f}", canary(f))
        for src, dst in HARDLINKS:
            os.link(f"{R}/{src}", f"{R}/{dst}")
        for link, target in SYMLINKS:
            os.symlink(target.replace("$R", R), f"{R}/{link}")

    def _scan(self) -> None:
        """Inventory from the real file system (lstat, no link following)."""
        R = self.R
        contents = {f: canary(f) for f in FILES}
        st = os.lstat(R)
        self.inv[(st.st_dev, st.st_ino)] = Entry("dir", [""], st.st_nlink)
        for dirpath, dirnames, filenames in os.walk(R, followlinks=False):
            rel_dir = os.path.relpath(dirpath, R)
            rel_dir = "" if rel_dir == "." else rel_dir
            if not rel_dir:
                for skip in ("scratch", "dyn"):  # work area / mutable area (scan_dyn)
                    if skip in dirnames:
                        dirnames.remove(skip)
            for name in dirnames + filenames:
                if name in MODEL_NAMES:
                    continue
                rel = f"{rel_dir}/{name}" if rel_dir else name
                st = os.lstat(f"{R}/{rel}")
                if stat.S_ISLNK(st.st_mode):
                    continue
                key = (st.st_dev, st.st_ino)
                if stat.S_ISDIR(st.st_mode):
                    self.inv[key] = Entry("dir", [rel], st.st_nlink)
                elif stat.S_ISREG(st.st_mode):
                    e = self.inv.get(key)
                    if e is None:
                        e = self.inv[key] = Entry("file", [], st.st_nlink, size=st.st_size)
                    e.relpaths.append(rel)
                    if rel in contents:
                        e.content = contents[rel]
        for e in self.inv.values():
            e.relpaths.sort()
            if e.kind == "file":
                assert e.content is not None, e
                assert e.nlink == len(e.relpaths), e

    # ---- mutable area -------------------------------------------------------------------------
    def dyn_reset(self) -> None:
        """Bring dyn/ back to its pristine state (directories are kept) and re-inventory it."""
        R = self.R
        if os.path.islink(f"{R}/dyn/base/sub"):
            os.unlink(f"{R}/dyn/base/sub")
        if os.path.isdir(f"{R}/dyn/hold/sub_real"):
            os.rename(f"{R}/dyn/hold/sub_real", f"{R}/dyn/base/sub")
        for d in DYN_DIRS:
            with os.scandir(f"{R}/{d}") as it:
                for e in list(it):
                    if not e.is_dir(follow_symlinks=False):
                        os.unlink(e.path)
        for f in DYN_FILES:
            write_canary_file(f"{R}/{f}", canary(f))
        for src, dst in DYN_HARDLINKS:
            os.link(f"{R}/{src}", f"{R}/{dst}")
        for link, target in DYN_SYMLINKS:
            os.symlink(target, f"{R}/{link}")
        self.scan_dyn()

    def scan_dyn(self) -> None:
        """Inventory of dyn/ as it is on disk *now* (contents read from disk by the harness)."""
        R = self.R
        for k in [k for k, e in self.inv.items() if e.dyn]:
            del self.inv[k]
        if not os.path.isdir(f"{R}/dyn"):
            return
        st = os.lstat(f"{R}/dyn")
        self.inv[(st.st_dev, st.st_ino)] = Entry("dir", ["dyn"], st.st_nlink, dyn=True)
        for dirpath, dirnames, filenames in os.walk(f"{R}/dyn", followlinks=False):
            rel_dir = os.path.relpath(dirpath, R)
            for name in dirnames + filenames:
                rel = f"{rel_dir}/{name}"
                st = os.lstat(f"{R}/{rel}")
                key = (st.st_dev, st.st_ino)
                if stat.S_ISLNK(st.st_mode):
                    continue
                if stat.S_ISDIR(st.st_mode):
                    self.inv[key] = Entry("dir", [rel], st.st_nlink, dyn=True)
                elif stat.S_ISREG(st.st_mode):
                    e = self.inv.get(key)
                    if e is None:
                        with open(f"{R}/{rel}", "rb") as fh:  # header only: the harness writes nothing behind it
                            e = self.inv[key] = Entry("file", [], st.st_nlink, fh.read(FILE_SIZE), dyn=True,
                                                      size=st.st_size)
                    e.relpaths.append(rel)
        for e in self.inv.values():
            if e.dyn:
                e.relpaths.sort()

    def subst(self, template: str) -> str:
        return template.replace("$R", self.R)

    def unsubst(self, text: str) -> str:
        return text.replace(self.R, "$R")

    def reset_scratch(self) -> None:
        with os.scandir(self.scratch) as it:
            entries = list(it)
        for e in entries:
            if e.is_dir(follow_symlinks=False):
                shutil.rmtree(e.path, ignore_errors=True)
            else:
                os.unlink(e.path)

    def source_of(self, data: bytes, offset: int) -> Entry | None:
        """Which canary file do these bytes come from (at this offset)?  The bytes must equal the
        file's content at [offset, offset+len): canary header, then zeros (the hole)."""
        n = len(data)
        tail_zero = None
        for e in self.inv.values():
            if e.kind != "file" or offset + n > max(e.size, len(e.content)):
                continue
            head = e.content[offset : offset + n]
            if not head or data[: len(head)] != head:
                continue
            if n > len(head):
                if tail_zero is None:
                    tail_zero = not np.frombuffer(data, dtype=np.uint8)[len(head):].any()
                if not tail_zero:
                    continue
            return e
        return None


# --------------------------------------------------------------------------------------------
# truth
# --------------------------------------------------------------------------------------------


def lexnorm(path: str) -> str:
    """Purely lexical normalisation of an absolute POSIX path (classification only)."""
    out: list[str] = []
    for c in path.split("/"):
        if c in ("", "."):
            continue
        if c == "..":
            if out:
                out.pop()
            continue
        out.append(c)
    return "/" + "/".join(out)


@dataclass
class Truth:
    exists: bool
    allowed: bool
    cls: str
    key: tuple[int, int] | None = None
    relpaths: list[str] = field(default_factory=list)
    base_rel: str | None = None
    detail: str = ""


def _under(rel: str, base_rel: str) -> bool:
    return rel.startswith(base_rel + "/")


def compute_truth(sb: Sandbox, base: Any, loc: Any) -> Truth:
    """Is ``loc`` (relative to ``base``; process cwd is the case's cwd) a singly-linked regular
    file whose fully resolved location lies inside the fully resolved base?  Kernel resolution
    plus inventory lookup; cross-checked with the realpath formulation."""
    base_s = os.fspath(base)
    loc_s = os.fspath(loc)
    fd = os.open(base_s, os.O_RDONLY | os.O_DIRECTORY)
    try:
        bst = os.fstat(fd)
        bentry = sb.inv.get((bst.st_dev, bst.st_ino))
        if bentry is None or bentry.kind != "dir":
            raise AssertionError(f"harness: base {base_s!r} is not an inventory directory")
        base_rel = bentry.relpaths[0]
        try:
            if loc_s == "":
                # join(base, "") denotes the base directory itself
                st = bst
            else:
                st = os.stat(loc_s, dir_fd=fd)
        except (OSError, ValueError) as e:
            return Truth(False, False, "nonexistent", base_rel=base_rel, detail=type(e).__name__)
    finally:
        os.close(fd)
    key = (st.st_dev, st.st_ino)
    entry = sb.inv.get(key)
    if entry is None:
        # outside the sandbox altogether (e.g. enough ".." to reach the shard directory or "/")
        kind = "directory" if stat.S_ISDIR(st.st_mode) else "file"
        return Truth(True, False, f"{kind}-outside-sandbox", key, [], base_rel)
    # --- second formulation: realpath containment + S_ISREG + st_nlink == 1 -------------------
    full = os.path.join(base_s, loc_s)
    rp = "/" + os.path.realpath(full).lstrip("/")  # POSIX keeps a leading "//"; Linux treats it as "/"
    rb = "/" + os.path.realpath(base_s).lstrip("/")
    st2 = os.stat(rp)
    if (st2.st_dev, st2.st_ino) != key or rb != f"{sb.R}/{base_rel}":
        raise AssertionError(f"harness: kernel and realpath resolution disagree for {full!r}: {rp!r}")
    allowed2 = (rp.startswith(rb + os.sep)) and stat.S_ISREG(st2.st_mode) and st2.st_nlink == 1

    cwd_lex = os.getcwd()
    base_lex = lexnorm(base_s if base_s.startswith("/") else cwd_lex + "/" + base_s)
    full_lex = lexnorm(full if full.startswith("/") else cwd_lex + "/" + full)
    real_base = f"{sb.R}/{base_rel}"
    if entry.kind == "dir":
        inside = entry.relpaths[0] == base_rel or _under(entry.relpaths[0], base_rel)
        t = Truth(True, False, "directory-inside" if inside else "directory-outside", key,
                  entry.relpaths, base_rel)
        allowed1 = False
    else:
        inside = [r for r in entry.relpaths if _under(r, base_rel)]
        if st.st_nlink > 1 or len(entry.relpaths) > 1:
            cls = "hardlink-inside" if len(inside) == len(entry.relpaths) else (
                "hardlink-to-outside" if inside else "hardlink-outside")
            allowed1 = False
        elif inside:
            via = "plain" if full_lex == f"{sb.R}/{entry.relpaths[0]}" else "indirect"
            cls = f"allowed-{via}"
            allowed1 = True
        else:
            real = f"{sb.R}/{entry.relpaths[0]}"
            prefix_sib = real.startswith(real_base)  # string prefix, but not under it
            lex_inside = full_lex == base_lex or full_lex.startswith(base_lex + "/")
            if loc_s.startswith("/"):
                cls = "absolute-prefix-sibling" if prefix_sib else "absolute"
            elif not lex_inside:
                cls = "prefix-sibling" if full_lex.startswith(base_lex) else "dotdot"
            else:
                try:
                    is_link = stat.S_ISLNK(os.lstat(full_lex).st_mode)
                except OSError:
                    is_link = False
                cls = "symlink-file-out" if is_link else "symlink-dir-out"
                if prefix_sib:
                    cls += "-prefix-sibling"
            variant = name_variant_kind(entry.relpaths[0], base_rel)
            if variant:  # the file lives under a directory whose name equals the base's under a folding
                cls += f"+{variant}-variant-of-base"
            allowed1 = False
        t = Truth(True, allowed1, cls, key, entry.relpaths, base_rel)
    if allowed1 != allowed2:
        raise AssertionError(
            f"harness: inventory truth {allowed1} != realpath truth {allowed2} for base={base_s!r} loc={loc_s!r}")
    return t


# --------------------------------------------------------------------------------------------
# audit-hook observer
# --------------------------------------------------------------------------------------------


class _Audit:
    def __init__(self) -> None:
        self.armed = False
        self.events: list[tuple] = []
        self.errors = 0
        self.installed = False

    def install(self) -> None:
        if not self.installed:
            sys.addaudithook(self._hook)
            self.installed = True

    def _hook(self, event: str, args: tuple) -> None:
        if not self.armed:
            return
        try:
            if event == "open":
                p = args[0]
                try:
                    st = os.fstat(p) if isinstance(p, int) else os.stat(p)
                except (OSError, ValueError, TypeError):
                    return
                self.events.append(("open", st.st_dev, st.st_ino, repr(p)))
            elif event == "mmap.__new__":
                fd = args[0]
                if isinstance(fd, int) and fd >= 0:
                    st = os.fstat(fd)
                    self.events.append(("mmap", st.st_dev, st.st_ino, f"fd={fd}"))
        except Exception:  # noqa: BLE001 - the observer must never change behaviour
            self.errors += 1


AUDIT = _Audit()


class HarnessError(Exception):
    """A defect of the harness itself (never converted into 'the code under test raised')."""


class LibRaised(Exception):
    """The code under test raised; carries the original exception."""

    def __init__(self, exc: BaseException) -> None:
        super().__init__(repr(exc))
        self.exc = exc


def lib(thunk: Callable[[], Any]) -> Any:
    """Run a piece of the code under test with the observer armed."""
    AUDIT.armed = True
    try:
        return thunk()
    except HarnessError:
        raise
    except Exception as e:  # noqa: BLE001 - the statement says "raises", any type
        raise LibRaised(e) from None
    finally:
        AUDIT.armed = False


# --------------------------------------------------------------------------------------------
# generators
# --------------------------------------------------------------------------------------------

DTYPES = ["UINT8", "INT8", "UINT16", "INT16", "INT32", "INT64", "FLOAT", "DOUBLE", "FLOAT16",
          "BFLOAT16", "UINT32", "UINT64", "BOOL", "FLOAT8E4M3FN"]
ITEMSIZE = {"UINT8": 1, "INT8": 1, "UINT16": 2, "INT16": 2, "INT32": 4, "INT64": 8, "FLOAT": 4,
            "DOUBLE": 8, "FLOAT16": 2, "BFLOAT16": 2, "UINT32": 4, "UINT64": 8, "BOOL": 1,
            "FLOAT8E4M3FN": 1}

JUNK = ["nonexist", "nonexist.bin", " ", "~", "$HOME", "%2e%2e", "..%2f", "C:\\Windows", "...",
        "..\\..\\outside\\secret.bin", "\uff0e\uff0e", "data.bin\x00.txt", "x" * 300, "B", "work",
        "outside", "secret.bin", "B_evil", "evil.bin", "Blink"]

ESCAPE_TEMPLATES = {
    "work/B": [
        "../B_evil/evil.bin", "../B_evil/data.bin", "../B_evil/sub/inner.bin", "../Blink_evil/evil.bin",
        "../../outside/secret.bin", "../../outside/sub/s.bin", "../../outside/data.bin",
        "sub/../../B_evil/evil.bin", "sub/deep/../../../../outside/secret.bin",
        "ln_out_dir/secret.bin", "ln_out_dir/sub/s.bin", "ln_evil_dir/evil.bin", "ln_evil_dir/data.bin",
        "ln_evil_file", "ln_out_file", "ln_out_file_abs", "ln_chain", "hl_to_out.bin", "hl_inside_a.bin",
        "sub/hl_inside_b.bin", "sub/hl_to_out2.bin", "ln_to_hl", "ln_to_hl_out",
        "ln_parent/B_evil/evil.bin", "ln_parent/../outside/secret.bin", "ln_out_dir/../outside/secret.bin",
        "ln_in_dir/ln_out_file", "ln_in_dir/ln_out_dir/secret2.bin", "sub/ln_out_dir/data.bin",
        "ln_self/ln_out_file", "ln_self/../B_evil/evil.bin", "ln_in_dir/../../B_evil/evil.bin",
        "$R/outside/secret.bin", "$R/work/B_evil/evil.bin", "$R/work/B/hl_to_out.bin",
        "$R/work/B/ln_out_file", "$R/work/Blink_evil/data.bin", "/$R/outside/secret2.bin",
        "$R/work/B/../B_evil/evil.bin", "$R/work/B/../../outside/data.bin",
        "../../../../../../../../../../../..$R/outside/secret.bin",
    ],
    "work/B/sub": [
        "../data.bin", "../other.bin", "../sub_evil/e.bin", "../../B_evil/evil.bin", "../../B_evil/sub/inner.bin",
        "../../../outside/secret.bin", "deep/../../data.bin", "ln_up_file", "ln_out_file", "ln_out_dir/secret.bin",
        "ln_sib_dir/e.bin", "hl_inside_b.bin", "hl_to_out2.bin", "../hl_to_out.bin", "../ln_out_file",
        "../ln_in_file", "../ln_in_dir/../data.bin", "../ln_in_dir/../sub_evil/e.bin",
        "$R/work/B/data.bin", "$R/work/B/sub_evil/e.bin", "$R/outside/secret.bin", "$R/work/B/sub/../data.bin",
        "deep/../../../B_evil/data.bin", "../../Blink/data.bin",
    ],
}
ESCAPE_TEMPLATES["work/B"] += [
    "../b/data.bin", "../b/other.bin", "../b/only_b.bin", "../b/sub/inner.bin", "../B./data.bin", "../B /data.bin",
    "../\uff22/data.bin", "../blink/data.bin", "sub/../../b/data.bin", "$R/work/b/data.bin", "$R/work/b/only_b.bin",
    "$R/work/B./data.bin", "$R/work/B /data.bin", "$R/work/\uff22/data.bin", "$R/work/B/../b/data.bin",
    "ln_case_dir/data.bin", "ln_case_dir/only_b.bin", "ln_case_dir/sub/inner.bin", "ln_case_file", "ln_dotted_dir/data.bin",
    "ln_spaced_file", "ln_wide_dir/data.bin", "Other.bin", "Hl_Inside_A.bin", "ln_parent/b/data.bin",
    "ln_out_dir/../work/b/data.bin",
]
ESCAPE_TEMPLATES["work/B/sub"] += [
    "../Sub/inner.bin", "../SUB/inner.bin", "../\u017fub/inner.bin", "../sub./inner.bin", "../sub /inner.bin",
    "$R/work/B/Sub/inner.bin", "$R/work/B/SUB/inner.bin", "$R/work/B/\u017fub/inner.bin", "$R/work/B/sub./inner.bin",
    "$R/work/B/sub /inner.bin", "ln_case_dir/inner.bin", "ln_case_file", "ln_longs_file", "ln_dotted_dir/inner.bin",
    "deep/../../SUB/inner.bin", "../../b/sub/inner.bin", "$R/work/b/sub/inner.bin", "../DATA.bin",
]
ALLOWED_TEMPLATES = {
    "work/B": ["data.bin", "other.bin", "sub/inner.bin", "sub/deep/d.bin", "sub_evil/e.bin", "ln_in_file",
               "ln_in_file_abs", "ln_in_dir/inner.bin", "ln_chain_in", "ln_self/data.bin", "ln_parent/B/data.bin",
               "../B/data.bin", "sub/ln_up_file", "sub/ln_in_file", "$R/work/B/data.bin", "./data.bin",
               "sub/../data.bin", "sub//inner.bin", "ln_out_dir/../work/B/data.bin", "sub/ln_sib_dir/e.bin",
               "DATA.bin", "Sub/inner.bin", "SUB/inner.bin", "sub./inner.bin", "sub/ln_case_file"],
    "work/B/sub": ["inner.bin", "deep/d.bin", "ln_in_file", "../sub/inner.bin", "deep/../inner.bin",
                   "$R/work/B/sub/inner.bin", "./deep//d.bin"],
}


def _walk(rng, start_abs: str, max_steps: int, root: str = "") -> list[str]:
    """Guided random walk over the real tree starting at ``start_abs`` (textual path, resolved by
    the kernel at every step).  Returns the list of components."""
    comps: list[str] = []
    cur = start_abs
    for _ in range(max_steps):
        try:
            entries = sorted(n for n in os.listdir(cur) if not n.startswith(("m.", "ln_m", ".m")))
        except (OSError, ValueError):
            entries = []
        r = rng.random()
        if entries and r < 0.70:
            c = rng.choice(entries)
        elif r < 0.84:
            c = ".."
        elif r < 0.92:
            c = "."
        else:
            c = rng.choice(JUNK)
        comps.append(c)
        cur = cur + "/" + c
        try:
            is_dir = stat.S_ISDIR(os.stat(cur).st_mode)
        except (OSError, ValueError):
            is_dir = False
        if root and is_dir and not (os.path.realpath(cur) + "/").startswith(root + "/"):
            break  # do not wander outside the sandbox
        if not is_dir:
            if rng.random() < 0.85:
                break
        elif rng.random() < 0.12:
            break
    return comps


def _decorate(rng, comps: list[str]) -> str:
    out = ""
    if rng.random() < 0.12:
        out = "./" if rng.random() < 0.7 else ".//"
    for i, c in enumerate(comps):
        if i:
            r = rng.random()
            out += "/" if r < 0.82 else ("//" if r < 0.92 else ("/./" if r < 0.97 else "///"))
        out += c
    r = rng.random()
    if r < 0.05:
        out += "/"
    elif r < 0.08:
        out += "/."
    return out


def gen_location(rng, sb: Sandbox, target: str) -> tuple[str, str]:
    """-> (location template with $R for the sandbox root, style)."""
    if is_fold_target(target):
        return gen_fold_location(rng, sb, target)
    base_abs = f"{sb.R}/{target}"
    r = rng.random()
    if r < 0.50:
        comps = _walk(rng, base_abs, rng.randint(1, 7), sb.R)
        return _decorate(rng, comps), "walk"
    if r < 0.62:
        start = rng.choice(["work/B", "work/B/sub", "work/B_evil", "outside", "work", "work/Blink", "outside/ln_back", ""])
        comps = _walk(rng, f"{sb.R}/{start}" if start else sb.R, rng.randint(1, 5), sb.R)
        root = rng.choice(["$R", "$R", "$R", "/$R", "/..$R", "/./$R", "$R/../" + os.path.basename(sb.R)])
        return root + ("/" + start if start else "") + "/" + _decorate(rng, comps), "abs"
    if r < 0.82:
        t = rng.choice(ESCAPE_TEMPLATES[target])
        if rng.random() < 0.35 and not t.startswith(("$R", "/")):
            t = _decorate(rng, t.split("/"))
        return t, "escape-template"
    if r < 0.92:
        t = rng.choice(ALLOWED_TEMPLATES[target])
        if rng.random() < 0.35 and not t.startswith(("$R", "/")):
            t = _decorate(rng, t.split("/"))
        return t, "allowed-template"
    n = rng.randint(0, 4)
    alphabet = JUNK + [".", "..", "sub", "data.bin", "ln_out_dir", "ln_in_dir", ""]
    return "/".join(rng.choice(alphabet) for _ in range(n)), "junk"


FOLD_LOCATION_FORMS = [
    "../{v}/data.bin", "../{v}/sub/inner.bin", "../{v}/only{j}.bin", "$R/fold/{v}/data.bin", "/$R/fold/{v}/only{j}.bin",
    "$R/fold/{v}/sub/inner.bin", "ln_d{j}/data.bin", "ln_d{j}/sub/inner.bin", "ln_d{j}/only{j}.bin", "ln_f{j}",
    "sub/../../{v}/data.bin", "sub/../ln_d{j}/only{j}.bin", "sub/../ln_f{j}", "$R/fold/{b}/../{v}/data.bin",
    "$R/fold/{b}/ln_f{j}", "$R/fold/{b}/ln_d{j}/data.bin", "../../fold/{v}/data.bin", "../via{j}/data.bin",
    "$R/fold/via{j}/only{j}.bin", "ln_d{j}/../{v}/sub/inner.bin",
]
FOLD_ALLOWED_FORMS = ["data.bin", "sub/inner.bin", "only{i}.bin", "../{b}/data.bin", "$R/fold/{b}/data.bin",
                      "ln_d{j}/../{b}/sub/inner.bin", "sub/../data.bin", "./sub//inner.bin", "../via{i}/data.bin"]


def gen_fold_location(rng, sb: Sandbox, target: str) -> tuple[str, str]:
    """Locations for a base directory of the fold family: guided walks (which meet the links to
    the neighbours and '..'), and forms that lead lexically / absolutely / through a symlinked
    file / through a symlinked directory into a neighbour whose name folds to the base's."""
    i = FOLD_TARGETS.index(target)
    r = rng.random()
    if r < 0.22:
        return _decorate(rng, _walk(rng, f"{sb.R}/{target}", rng.randint(1, 6), sb.R)), "fold-walk"
    j = rng.choice([k for k in range(len(FOLD_NAMES)) if k != i])
    if r < 0.36:
        form, style = rng.choice(FOLD_ALLOWED_FORMS), "fold-allowed-template"
    else:
        form, style = rng.choice(FOLD_LOCATION_FORMS), "fold-escape-template"
    t = form.format(v=FOLD_NAMES[j], b=FOLD_NAMES[i], i=i, j=j)
    if rng.random() < 0.3 and not t.startswith(("$R", "/")):
        t = _decorate(rng, t.split("/"))
    return t, style


def _fold_base_spellings(target: str) -> list[tuple[str, str, str]]:
    parent, name = os.path.split(target)
    i = FOLD_TARGETS.index(target)
    return [
        ("abs", "work", f"$R/{target}"), ("abs", "outside", f"$R/{target}"), ("abs", "fold", f"$R/{target}"),
        ("abs-trailing-sep", "work", f"$R/{target}/"), ("abs-trailing-dot", "work", f"$R/{target}/."),
        ("abs-nonnormalised", "work", f"$R/{parent}/../{parent}/{name}"), ("abs-nonnormalised", "work", f"$R//{target}"),
        ("abs-nonnormalised", "work", f"$R/{target}/sub/.."), ("abs-double-slash-root", "work", f"/$R/{target}"),
        ("rel", parent, name), ("rel", "", target), ("rel-dot-prefix", parent, f"./{name}"),
        ("rel-trailing-sep", parent, f"{name}/"), ("rel-dotdot", "outside", f"../{target}"),
        ("rel-dotdot", f"{target}/sub", ".."), ("dot", target, "."), ("dot", target, "./"),
        ("via-symlink-abs", "work", f"$R/fold/via{i}"), ("via-symlink-rel", "fold", f"via{i}"),
        # through the link a NEIGHBOUR keeps to this directory
        ("via-symlink-abs", "work", f"$R/fold/{FOLD_NAMES[(i + 1) % len(FOLD_NAMES)]}/ln_d{i}"),
    ]


def base_spellings(target: str) -> list[tuple[str, str, str]]:
    """(class, cwd relative to R, base template)."""
    if is_fold_target(target):
        return _fold_base_spellings(target)
    parent, name = os.path.split(target)
    viasym = target.replace("work/B", "work/Blink", 1)
    out = [
        ("abs", "work", f"$R/{target}"),
        ("abs", "outside", f"$R/{target}"),
        ("abs-trailing-sep", "work", f"$R/{target}/"),
        ("abs-trailing-sep", "", f"$R/{target}//"),
        ("abs-trailing-dot", "work", f"$R/{target}/."),
        ("abs-nonnormalised", "work", f"$R/{parent}/../{parent.split('/')[-1]}/{name}"),
        ("abs-nonnormalised", "work", f"$R/./{target}"),
        ("abs-nonnormalised", "work", f"$R//{target}"),
        ("abs-nonnormalised", "work", f"$R/{target}/deep/.." if target.endswith("sub") else f"$R/{target}/sub/.."),
        ("abs-double-slash-root", "work", f"/$R/{target}"),
        ("rel", parent, name),
        ("rel", "", target),
        ("rel-dot-prefix", parent, f"./{name}"),
        ("rel-trailing-sep", parent, f"{name}/"),
        ("rel-dotdot", "outside", f"../{target}"),
        ("rel-dotdot", f"{target}/deep" if target.endswith("sub") else f"{target}/sub", ".."),
        ("rel-nonnormalised", parent, f"{name}//"),
        ("via-symlink-abs", "work", f"$R/{viasym}"),
        ("via-symlink-abs", "work", f"$R/{viasym}/"),
        ("via-symlink-rel", "work", viasym[len("work/"):]),
        ("via-symlink-outside-abs", "work", "$R/outside/ln_back" + target[len("work/B"):]),
        ("dot", target, "."),
        ("dot", target, "./"),
        ("dot", target, "./."),
        ("dot-in-symlinked-cwd", viasym, "."),
    ]
    if target == "work/B/sub":
        out.append(("via-symlink-rel", "work/B", "ln_in_dir"))
        out.append(("via-symlink-abs", "work", "$R/work/B/ln_in_dir"))
        out.append(("via-symlink-abs", "work", "$R/work/B/ln_self/sub"))
    else:
        out.append(("via-symlink-abs", "work", "$R/work/B/ln_self"))
        out.append(("via-symlink-rel", "work/B/sub", "../ln_parent/B"))
    return out


def load_spellings(target: str, fname: str) -> list[tuple[str, str, str, bool]]:
    """(class, cwd relative to R, model path template, judged?) for ir.load."""
    parent, name = os.path.split(target)
    if is_fold_target(target):
        i = FOLD_TARGETS.index(target)
        return [
            ("abs", "outside", f"$R/{target}/{fname}", True),
            ("abs-nonnormalised", "work", f"$R/{target}/./{fname}", True),
            ("abs-nonnormalised", "work", f"$R/{target}/../{name}/{fname}", True),
            ("rel", parent, f"{name}/{fname}", True),
            ("rel", "", f"{target}/{fname}", True),
            ("rel-dot-prefix", parent, f"./{name}/{fname}", True),
            ("rel-nonnormalised", parent, f"{name}/sub/../{fname}", True),
            ("dot-slash-name", target, f"./{fname}", True),
            ("bare-filename", target, fname, True),
            ("bare-filename", f"fold/via{i}", fname, True),
            ("rel-dotdot", f"{target}/sub", f"../{fname}", True),
            ("rel-dotdot", "outside", f"../{target}/{fname}", True),
            ("via-symlink-abs", "outside", f"$R/fold/via{i}/{fname}", True),
            ("via-symlink-rel", "fold", f"via{i}/{fname}", True),
        ]
    viasym = target.replace("work/B", "work/Blink", 1)
    child = "deep" if target.endswith("sub") else "sub"
    return [
        ("abs", "outside", f"$R/{target}/{fname}", True),
        ("abs-nonnormalised", "work", f"$R/{target}/./{fname}", True),
        ("abs-nonnormalised", "work", f"$R/{target}//{fname}", True),
        ("abs-nonnormalised", "work", f"$R/{target}/../{name}/{fname}", True),
        ("rel", parent, f"{name}/{fname}", True),
        ("rel", "", f"{target}/{fname}", True),
        ("rel-dot-prefix", parent, f"./{name}/{fname}", True),
        ("rel-nonnormalised", parent, f"{name}//{fname}", True),
        ("rel-nonnormalised", parent, f"{name}/{child}/../{fname}", True),
        ("dot-slash-name", target, f"./{fname}", True),
        ("dot-slash-name", target, f".//{fname}", True),
        ("dot-slash-name", target, f"././{fname}", True),
        ("bare-filename", target, fname, True),
        ("bare-filename", viasym, fname, True),
        ("rel-dotdot", f"{target}/{child}", f"../{fname}", True),
        ("rel-dotdot", "work/B_evil", f"../{target[len('work/'):]}/{fname}", True),
        ("via-symlink-abs", "outside", f"$R/{viasym}/{fname}", True),
        ("via-symlink-rel", "work", f"{viasym[len('work/'):]}/{fname}", True),
        ("trailing-components", target, f"{fname}/", False),
        ("trailing-components", target, f"{fname}/.", False),
    ] + _symlink_load_spellings(target, fname)


def _symlink_load_spellings(target: str, fname: str) -> list[tuple[str, str, str, bool]]:
    """Model paths with "<symlink-to-directory>/.." components (the OS follows the link before
    going up, a lexical normalisation does not), symlinked model files."""
    parent, name = os.path.split(target)
    is_b = target == "work/B"
    ln = "ln_to_Bsub" if is_b else "ln_to_deep"  # -> a child directory of the model directory
    D = "symlink-dir-dotdot"
    out = [
        (D, "work/B_evil", f"{ln}/../{fname}", True),  # at the start
        (D, "outside", f"{ln}/../{fname}", True),
        (D, "work/B_evil", f"./{ln}//.././{fname}", True),
        (D, "work", f"B_evil/{ln}/../{fname}", True),  # in the middle
        (D, "", f"outside/{ln}/../{fname}", True),
        (D, "work", f".//B_evil//{ln}/.././/{fname}", True),
        (D, "outside", f"$R/work/B_evil/{ln}/../{fname}", True),  # absolute
        (D, "work", f"$R/outside/./{ln}/..//{fname}", True),
        (D, "work", f"B/ln_out_dir/../{target}/{fname}", True),  # link -> outside, ".." -> $R
        (D, "outside", f"ln_back/../{target[len('work/'):]}/{fname}", True),  # link -> work/B, ".." -> work
    ]
    if is_b:
        out += [
            (D, "work", f"B_evil/{ln}/../ln_in_dir/../{fname}", True),  # several
            (D, "work", f"B_evil/{ln}/../sub/ln_sib_dir/../{fname}", True),
            (D + "-harmless", "work", f"Blink/../B/{fname}", True),
            (D + "-harmless", "work", f"B/ln_in_dir/../{fname}", True),
        ]
    else:
        out += [
            (D, "work", f"B_evil/{ln}/../ln_sib_dir/../sub/{fname}", True),  # collapses to B_evil/sub
            (D, "work", f"B_evil/{ln}/../../ln_in_dir/{fname}", True),
            (D + "-harmless", "work", f"B/ln_in_dir/deep/../{fname}", True),
            (D + "-harmless", "work", f"B/ln_self/sub/{fname}", True),
        ]
    out.append(("symlinked-model-file", parent, f"{name}/ln_{fname}", True))
    out.append(("symlinked-model-file", target, f"ln_{fname}", True))
    if fname == "m.onnx":
        # a static symlink in outside/ to the model written into the target directory.  The
        # model's directory is the directory holding the directory entry the caller named, here
        # outside/ (gen_load_case sets spec["model_dir"]); the tensors' locations are still drawn
        # from the target's grammar, the truth is computed against outside/.
        out.append(("symlinked-model-file-other-dir", "", f"outside/ln_m_{'B' if is_b else 'sub'}.onnx", True))
    return out


# Model FILE reached through a symbolic link that lives in the model directory and points into
# another directory (content-addressed cache layouts: snapshot/model.onnx -> ../blobs/<hash>).
# The model's directory stays the directory of the link.  Blob directories with same-named decoy
# data files (data.bin / inner.bin / other.bin exist in outside/ and work/B_evil/) make a read
# anchored at the blob's directory observable; the others make it fail or hit another file.
LINK_BLOB_DIRS = {  # target -> [(class, directory of the real model file)]
    "work/B": [("other-dir", "outside"), ("other-dir", "outside"), ("other-dir", "work/B_evil"),
               ("other-dir", "work/B_evil"), ("child-dir", "work/B/sub"), ("parent-dir", "work")],
    "work/B/sub": [("other-dir", "outside"), ("other-dir", "outside"), ("other-dir", "work/B_evil"),
                   ("other-dir", "work/B_evil/sub"), ("child-dir", "work/B/sub/deep"), ("parent-dir", "work/B")],
}
LINK_HOP_DIRS = ["outside/sub", "work/B_evil", "work", "work/B/sub_evil"]
# spellings of the target directory itself through a directory symlink: the link's destination
# is then a file of the model directory and every definition of "the model's directory" agrees
LINK_SAME_DIR_VIA = {"work/B": ["work/Blink", "outside/ln_back", "work/B/ln_self"],
                     "work/B/sub": ["work/B/ln_in_dir", "work/Blink/sub", "outside/ln_to_Bsub"]}


def gen_model_link(rng, target: str, fname: str) -> dict:
    """Describe a chain  $R/<target>/<link name> -> [hop ->] real model file  (all names start
    with "m." so that location walks never pick them).  -> spec["link"]."""
    ext = os.path.splitext(fname)[1]
    name = "m.lnk" + ext
    if rng.random() < 0.15:
        cls, blob_dir = "same-dir-via-dirlink", target
        via = rng.choice(LINK_SAME_DIR_VIA[target])
    else:
        cls, blob_dir = rng.choice(LINK_BLOB_DIRS[target])
        via = blob_dir
    blob_name = "m.blob" + rng.choice(["", "", ext, "-0123abcd"])
    chain = [[target, name]]
    if rng.random() < 0.25:
        chain.append([rng.choice([d for d in LINK_HOP_DIRS if d not in (target, blob_dir)]), "m.hop" + ext])
    texts = []
    for i, (d, _n) in enumerate(chain):
        nd, nn = (chain[i + 1] if i + 1 < len(chain) else (via, blob_name))
        dest = f"{nd}/{nn}"
        r = rng.random()
        if r < 0.6:
            texts.append(os.path.relpath(dest, d))  # relative to the (real) directory of the link
        elif r < 0.7:
            texts.append("./" + os.path.relpath(dest, d).replace("/", "//", 1))
        else:
            texts.append("$R/" + dest)
    return {"class": cls, "name": name, "chain": chain, "texts": texts, "blob": [blob_dir, blob_name]}


# Size classes.  Code paths that depend on the size of a tensor (direct reads, chunked copies,
# alignment, in-flight budgets, shard sizes) switch at "round" byte counts; a share of all cases
# therefore declares a tensor just below / exactly at / just above / well above a power-of-two
# boundary.  (log2 of the boundary, weight) - 1 MiB is the threshold onnx_ir's defaults use.
SIZE_TIERS = [(16, 2), (20, 9), (22, 2), (24, 1)]
BIG_SHARE = 0.14


def gen_tensor_params(rng, big_share: float = BIG_SHARE) -> dict:
    dtype = rng.choice(DTYPES)
    isz = ITEMSIZE[dtype]
    if rng.random() < big_share:
        k = rng.choice([t for t, w in SIZE_TIERS for _ in range(w)])
        edge = rng.choice(["below", "exact", "exact", "above", "between"])
        n = (1 << k) // isz
        if edge == "below":
            n -= 1
        elif edge == "above":
            n += 1
        elif edge == "between" and k < 24:
            n += rng.randrange(1, n) // rng.choice([1, 64])
        r = rng.random()
        shape = [n] if r < 0.5 or n % 2 else ([2, n // 2] if r < 0.75 or n % 1024 else [n // 1024, 1024])
    else:
        n = rng.choice([8, 16, 24, 32]) // isz
        shape = [n] if rng.random() < 0.7 or n % 2 else [2, n // 2]
    nbytes = n * isz
    offset = rng.choice([None, 0, 8, 16, 32])
    length = rng.choice([None, nbytes])
    return {"dtype": dtype, "shape": shape, "offset": offset, "length": length}


def size_class(p: dict) -> str:
    """'' for the small tensors, else the largest boundary reached ('2^20' = at least 1 MiB)."""
    n = max(nbytes_of(p), p.get("length") or 0)  # declared length counts: byte-copying paths go by it
    reached = [k for k, _ in SIZE_TIERS if n >= (1 << k)]
    return f"2^{reached[-1]}" if reached else ""


def size_suffix(p: dict) -> str:
    c = size_class(p)
    return f"|size>={c}" if c else ""


# --------------------------------------------------------------------------------------------
# tensors, models, entry points
# --------------------------------------------------------------------------------------------


def tensor_proto(name: str, loc: str, p: dict) -> TensorProto:
    t = TensorProto()
    t.name = name
    t.data_type = getattr(TensorProto, p["dtype"])
    t.dims.extend(p["shape"])
    t.data_location = TensorProto.EXTERNAL
    items = [("location", loc)]
    if p["offset"] is not None:
        items.append(("offset", str(p["offset"])))
    if p["length"] is not None:
        items.append(("length", str(p["length"])))
    for k, v in items:
        e = t.external_data.add()
        e.key = k
        e.value = v
    return t


def nbytes_of(p: dict) -> int:
    n = 1
    for d in p["shape"]:
        n *= d
    return n * ITEMSIZE[p["dtype"]]


def make_tensor(route: str, base: Any, loc: Any, p: dict, name: str = "t") -> ir.ExternalTensor:
    """Create an ExternalTensor whose base directory is established through ``route``."""
    dtype = ir.DataType[p["dtype"]]
    kw = dict(shape=ir.Shape(p["shape"]), name=name)
    if route == "ctor":
        return ir.ExternalTensor(loc, p["offset"], p["length"], dtype, base_dir=base, **kw)
    if route == "setter":
        t = ir.ExternalTensor(loc, p["offset"], p["length"], dtype, **kw)
        t.base_dir = base
        return t
    if route == "set_base_dir":
        t = ir.ExternalTensor(loc, p["offset"], p["length"], dtype, **kw)
        v = ir.Value(name=name, shape=t.shape, type=ir.TensorType(dtype), const_value=t)
        g = ir.Graph([], [], nodes=[], initializers=[v], name="g")
        external_data.set_base_dir(g, base)
        return t
    if route == "deserialize":
        t = serde.deserialize_tensor(tensor_proto(name, os.fspath(loc), p), base)
        if not isinstance(t, ir.ExternalTensor):
            raise HarnessError("deserialize_tensor did not give an ExternalTensor")
        return t
    raise HarnessError(route)


def model_with(t: ir.ExternalTensor, position: str, companion: bool) -> ir.Model:
    """A small model (public API) holding ``t`` as initializer of the main graph or a subgraph."""
    v = ir.Value(name=t.name, shape=t.shape, type=ir.TensorType(t.dtype), const_value=t)
    inits = [v]
    if companion:
        c = ir.Tensor(np.arange(24, dtype=np.uint8), name="companion")
        inits.insert(0, ir.Value(name="companion", shape=c.shape, type=ir.TensorType(c.dtype), const_value=c))
    if position == "init":
        g = ir.Graph([], [], nodes=[], initializers=inits, opset_imports={"": 18}, name="g")
    else:
        sub = ir.Graph([], [], nodes=[], initializers=inits, name="sub")
        if position == "subsubinit":
            sub = ir.Graph([], [], nodes=[ir.node("Wrap", [], {"body": sub}, domain="c10", num_outputs=1)], name="mid")
        n = ir.node("Wrap", [], {"body": sub}, domain="c10", num_outputs=1)
        g = ir.Graph([], [], nodes=[n], opset_imports={"": 18, "c10": 1}, name="g")
    return ir.Model(g, ir_version=10)


class _WriteOnly:
    def __init__(self) -> None:
        self.chunks: list[bytes] = []

    def write(self, b) -> int:
        self.chunks.append(bytes(b))
        return len(b)


def _find_initializer(graph: onnx.GraphProto, name: str):
    for init in graph.initializer:
        if init.name == name:
            return init
    for node in graph.node:
        for a in node.attribute:
            for g in ([a.g] if a.type == onnx.AttributeProto.GRAPH else list(a.graphs)):
                r = _find_initializer(g, name)
                if r is not None:
                    return r
    return None


def _read_saved(sb: Sandbox, name: str) -> bytes:
    """Harness-side read of what ir.save wrote for initializer ``name``."""
    proto = onnx.load(sb.scratch + "/m2.onnx", load_external_data=False)
    init = _find_initializer(proto.graph, name)
    assert init is not None, "harness: saved initializer not found"
    if init.data_location == TensorProto.EXTERNAL:
        info = {e.key: e.value for e in init.external_data}
        with open(os.path.join(sb.scratch, info["location"]), "rb") as f:
            f.seek(int(info.get("offset", 0)))
            return f.read(int(info["length"]))
    return bytes(init.raw_data)


TENSOR_ENTRIES = [
    "numpy", "tobytes", "tofile_file", "tofile_file_offset", "tofile_bytesio", "tofile_writeonly",
    "array", "asarray", "np_array", "convert_from_external", "convert_to_external",
    "convert_to_external_parallel", "numpy;tobytes", "tobytes;numpy", "tofile;numpy", "numpy;tofile",
    "convert_to_external_aligned",
]
# bulk entry points: everything that pulls the external initializers of a whole model into memory or
# re-writes them (save_* go through unload_from_model on a copy; unload_* call it in place)
MODEL_ENTRIES = ["load_to_model", "save_reexternalise", "save_reexternalise_parallel",
                 "save_reexternalise_sharded", "save_inline_raw", "save_reexternalise_aligned",
                 "save_reexternalise_budgeted", "unload_from_model", "unload_from_model_inline"]


def wants_companion(entry: str) -> bool:
    """Entries that write with several workers get a second (in-memory) initializer."""
    return "parallel" in entry or "budgeted" in entry


def run_tensor_entry(sb: Sandbox, entry: str, t: ir.ExternalTensor) -> bytes:
    """Call one read entry point of the code under test on ``t`` and return the bytes it
    delivered.  Library calls go through ``lib`` (observer armed, exceptions -> LibRaised)."""
    if ";" in entry:
        first, second = entry.split(";")
        try:
            run_tensor_entry(sb, {"tofile": "tofile_bytesio"}.get(first, first), t)
        except LibRaised:
            pass
        return run_tensor_entry(sb, {"tofile": "tofile_bytesio"}.get(second, second), t)
    if entry == "numpy":
        return lib(lambda: t.numpy()).tobytes()
    if entry == "tobytes":
        return bytes(lib(lambda: t.tobytes()))
    if entry in ("tofile_file", "tofile_file_offset"):
        prefix = b"PREFIX-" if entry.endswith("offset") else b""
        path = sb.scratch + "/tofile.out"
        with open(path, "w+b") as f:
            f.write(prefix)
            lib(lambda: t.tofile(f))
            f.flush()
            f.seek(0)
            data = f.read()
        assert data.startswith(prefix)
        return data[len(prefix):]
    if entry == "tofile_bytesio":
        buf = io.BytesIO()
        lib(lambda: t.tofile(buf))
        return buf.getvalue()
    if entry == "tofile_writeonly":
        w = _WriteOnly()
        lib(lambda: t.tofile(w))
        return b"".join(w.chunks)
    if entry == "array":
        return lib(lambda: t.__array__()).tobytes()
    if entry == "asarray":
        return lib(lambda: np.asarray(t)).tobytes()
    if entry == "np_array":
        with warnings.catch_warnings():
            warnings.simplefilter("ignore")
            return lib(lambda: np.array(t)).tobytes()
    if entry == "convert_from_external":
        return lib(lambda: external_data.convert_tensors_from_external([t]))[0].tobytes()
    if entry in ("convert_to_external", "convert_to_external_parallel", "convert_to_external_aligned"):
        comp = ir.Tensor(np.arange(24, dtype=np.uint8), name="companion")
        kw: dict[str, Any] = {"max_workers": 2} if entry.endswith("parallel") else {}
        if entry.endswith("aligned"):
            kw["alignment"] = 4096  # default align_threshold: only tensors above 1 MiB are aligned
        res = lib(lambda: external_data.convert_tensors_to_external(
            [comp, t], base_dir=sb.scratch, relative_path="o.data", **kw))
        with open(sb.scratch + "/o.data", "rb") as f:
            f.seek(res[1].offset or 0)
            return f.read(res[1].length)
    raise AssertionError(entry)


def run_model_entry(sb: Sandbox, entry: str, model: ir.Model, name: str) -> bytes:
    if entry == "load_to_model":
        lib(lambda: external_data.load_to_model(model))
        for g in model.graphs():
            if name in g.initializers:
                cv = g.initializers[name].const_value
                assert not isinstance(cv, ir.ExternalTensor)
                return cv.tobytes()
        raise AssertionError("harness: initializer lost")
    if entry in ("unload_from_model", "unload_from_model_inline"):
        inline = entry.endswith("inline")
        lib(lambda: external_data.unload_from_model(
            model, sb.scratch, "u.data", size_threshold_bytes=(1 << 30) if inline else 0))
        for g in model.graphs():
            if name in g.initializers:
                cv = g.initializers[name].const_value
                if inline:  # below the threshold: pulled into memory
                    assert not isinstance(cv, ir.ExternalTensor)
                    return cv.tobytes()
                # re-written: harness-side read of the new data file
                assert isinstance(cv, ir.ExternalTensor) and os.path.dirname(os.path.realpath(cv.path)) == sb.scratch
                with open(cv.path, "rb") as f:
                    f.seek(cv.offset or 0)
                    return f.read(cv.length)
        raise AssertionError("harness: initializer lost")
    kw: dict[str, Any] = {"size_threshold_bytes": 0}
    if entry == "save_reexternalise_parallel":
        kw["max_workers"] = 2
    elif entry == "save_reexternalise_sharded":
        kw["max_shard_size_bytes"] = 16
    elif entry == "save_inline_raw":
        kw["size_threshold_bytes"] = 1 << 30  # every tensor is below it: loaded into memory, saved inline
    elif entry == "save_reexternalise_aligned":
        kw["alignment"] = 4096
    elif entry == "save_reexternalise_budgeted":
        kw.update(max_workers=2, max_in_flight_bytes=1 << 16)
    else:
        assert entry == "save_reexternalise", entry
    lib(lambda: ir.save(model, sb.scratch + "/m2.onnx", external_data="w.data", **kw))
    return _read_saved(sb, name)


# --------------------------------------------------------------------------------------------
# model files for the ir.load clause (built with onnx protos only)
# --------------------------------------------------------------------------------------------

POSITIONS = [
    "init", "node-attr", "node-attr-tensors", "subgraph-init", "subgraph-node-attr",
    "subsubgraph-init", "graphs-attr-init", "function-body-attr", "function-body-subgraph-init",
]
INIT_POSITIONS = ["init", "subgraph-init", "subsubgraph-init"]


def build_model_proto(tensors: dict[str, list[TensorProto]]) -> onnx.ModelProto:
    """Place external TensorProtos at the named positions of a model."""
    def g(name, nodes=(), inits=()):
        return helper.make_graph(list(nodes), name, [], [], initializer=list(inits))

    nodes = []
    for i, t in enumerate(tensors.get("node-attr", [])):
        nodes.append(helper.make_node("Constant", [], [f"c{i}"], value=t))
    if tensors.get("node-attr-tensors"):
        nodes.append(helper.make_node("Multi", [], ["multi"], domain="c10", values=tensors["node-attr-tensors"]))
    sub_nodes = [helper.make_node("Constant", [], [f"sc{i}"], value=t)
                 for i, t in enumerate(tensors.get("subgraph-node-attr", []))]
    if tensors.get("subsubgraph-init"):
        sub_nodes.append(helper.make_node("Wrap", [], ["ssw"], domain="c10",
                                          body=g("subsub", inits=tensors["subsubgraph-init"])))
    if sub_nodes or tensors.get("subgraph-init"):
        nodes.append(helper.make_node("Wrap", [], ["sw"], domain="c10",
                                      body=g("sub", sub_nodes, tensors.get("subgraph-init", []))))
    if tensors.get("graphs-attr-init"):
        nodes.append(helper.make_node("WrapMany", [], ["wm"], domain="c10",
                                      bodies=[g("gs0"), g("gs1", inits=tensors["graphs-attr-init"])]))
    functions = []
    fn_nodes = [helper.make_node("Constant", [], [f"fc{i}"], value=t)
                for i, t in enumerate(tensors.get("function-body-attr", []))]
    if tensors.get("function-body-subgraph-init"):
        fn_nodes.append(helper.make_node("Wrap", [], ["fw"], domain="c10",
                                         body=g("fsub", inits=tensors["function-body-subgraph-init"])))
    if fn_nodes:
        outs = [fn_nodes[0].output[0]]
        functions.append(helper.make_function(
            "c10", "F", [], outs, fn_nodes, [helper.make_opsetid("", 18), helper.make_opsetid("c10", 1)]))
        nodes.append(helper.make_node("F", [], ["fout"], domain="c10"))
    graph = g("main", nodes, tensors.get("init", []))
    return helper.make_model(graph, functions=functions, ir_version=10,
                             opset_imports=[helper.make_opsetid("", 18), helper.make_opsetid("c10", 1)])


def collect_external_tensors(model: ir.Model) -> dict[str, ir.ExternalTensor]:
    """Harness's own traversal (independent of external_data._all_tensors): every ExternalTensor
    of the loaded model by tensor name - graphs, subgraphs at any depth, tensor attributes,
    function bodies."""
    found: dict[str, ir.ExternalTensor] = {}

    def visit_tensor(t) -> None:
        if isinstance(t, ir.ExternalTensor):
            assert t.name not in found or found[t.name] is t, "harness: duplicate tensor name"
            found[t.name] = t

    def visit_nodes(nodes) -> None:
        for n in nodes:
            for a in n.attributes.values():
                if a.is_ref():
                    continue
                if a.type == ir.AttributeType.TENSOR:
                    visit_tensor(a.value)
                elif a.type == ir.AttributeType.TENSORS:
                    for t in a.value:
                        visit_tensor(t)
                elif a.type == ir.AttributeType.GRAPH:
                    visit_graph(a.value)
                elif a.type == ir.AttributeType.GRAPHS:
                    for sg in a.value:
                        visit_graph(sg)

    def visit_graph(graph) -> None:
        for v in graph.initializers.values():
            if v.const_value is not None:
                visit_tensor(v.const_value)
        visit_nodes(graph)

    visit_graph(model.graph)
    for f in model.functions.values():
        visit_nodes(f)
    return found
