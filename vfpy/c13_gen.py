"""C13 workload generator: structurally rich IR models built through the public API only.

``build(rng, spec)`` returns an ``ir.Model`` whose shape is controlled by the JSON-able ``spec``
(sizes and feature switches, so a failing case can be reduced by shrinking the spec):

* nested subgraphs through GRAPH and GRAPHS attributes to ``spec['depth']`` with lexically scoped
  captures of outer values, the same outer value used in several scopes, subgraph inputs and
  initializers of their own;
* model-local functions with attribute parameters (with and without default), reference
  attributes in their bodies, subgraphs inside function bodies, calls from the main graph;
* every attribute kind that the public constructors offer;
* initializers (some also graph inputs, duplicated tensors), values with every type class,
  shapes with int / named / unknown / expression dims, denotations, frozen shapes, doc strings,
  ``metadata_props`` and ``meta`` (including mutable payloads and invalidated keys) on every carrier;
* IR version 11 device configurations with ``Node.shard`` / ``Node.set_pipeline_stage`` annotations
  on nodes of every scope (including shards of captured outer values).

All names are unique per model and every graph is topologically sorted by construction, so
name-based serialisation of the model and of each of its parts is well defined.

``family='exec'`` builds small checker-plausible models over real ONNX operators (with unused nodes,
Identity chains, Constant nodes, duplicate initializers, an If with capturing branches, a function
call) so that the built-in passes have something to do under ``functionalize``.
"""

from __future__ import annotations

import numpy as np
import onnx_ir as ir

DT = ir.DataType
DTYPES = [DT.FLOAT, DT.INT64, DT.FLOAT16, DT.BOOL, DT.INT32, DT.DOUBLE, DT.UINT8]


def default_spec(rng, tier_scale: float = 1.0) -> dict:
    family = "exec" if rng.random() < 0.3 else "struct"
    return {
        "family": family,
        "nodes": rng.randint(2, 7),
        "depth": rng.choice([0, 1, 1, 2, 2, 3]),
        "funcs": rng.choice([0, 0, 1, 1, 2]),
        "inits": rng.randint(0, 3),
        "dev": rng.random() < 0.5,
        "meta": rng.random() < 0.8,
        "seed": rng.randrange(1 << 30),
    }


class Builder:
    def __init__(self, rng, spec: dict) -> None:
        self.rng = rng
        self.spec = spec
        self.k = 0
        self.functions: list[ir.Function] = []
        self.all_nodes: list[ir.Node] = []
        self.budget_graphs = 10  # bound on the number of nested graphs per model
        self.cur_params: list | None = None  # attribute parameters of the function being built

    # ---- names ------------------------------------------------------------------------------
    def nm(self, prefix: str) -> str:
        self.k += 1
        return f"{prefix}{self.k}"

    # ---- payload ------------------------------------------------------------------------------
    def mk_type(self):
        rng = self.rng
        d = rng.choice(DTYPES)
        r = rng.random()
        if r < 0.12:
            return None
        if r < 0.62:
            return ir.TensorType(d, denotation=rng.choice([None, None, "TENSOR", "IMAGE"]))
        if r < 0.70:
            return ir.SparseTensorType(d)
        if r < 0.82:
            return ir.SequenceType(ir.TensorType(d), denotation=rng.choice([None, "SEQ"]))
        if r < 0.92:
            return ir.OptionalType(ir.TensorType(d, denotation=rng.choice([None, "INNER"])))
        return ir.OptionalType(ir.SequenceType(ir.TensorType(d)))

    def mk_dim(self):
        rng = self.rng
        r = rng.random()
        if r < 0.45:
            return rng.choice([1, 2, 3, 4, 8])
        if r < 0.7:
            return rng.choice(["N", "M", "batch"])
        if r < 0.82:
            return None
        base = ir.SymbolicDim(rng.choice(["N", "M"]))
        try:
            return rng.choice([lambda b: b * 2 + 1, lambda b: b + 3, lambda b: b * b, lambda b: b // 2])(base)
        except Exception:  # noqa: BLE001 - expression support is C16's business
            return base

    def mk_shape(self):
        rng = self.rng
        if rng.random() < 0.15:
            return None
        rank = rng.choice([0, 1, 2, 2, 3, 4])
        dims = [self.mk_dim() for _ in range(rank)]
        den = None
        if rank and rng.random() < 0.35:
            den = [rng.choice([None, "DATA_BATCH", "DATA_CHANNEL", "X"]) for _ in range(rank)]
        return ir.Shape(dims, denotations=den, frozen=rng.random() < 0.12)

    def mk_tensor(self, name=None):
        rng = self.rng
        kind = rng.randrange(8)
        if kind == 5:
            return ir.StringTensor(np.array([b"a", b"bc"][: rng.randint(1, 2)]), name=name)
        if kind == 6:
            return ir.LazyTensor(lambda: ir.tensor(np.full((2,), 0.5, dtype=np.float32)), dtype=DT.FLOAT,
                                 shape=ir.Shape([2]), name=name)
        if kind == 7:
            return ir.PackedTensor(np.array([0x21, 0x43], dtype=np.uint8), DT.INT4, shape=[4], name=name)
        if kind == 0:
            arr = np.arange(rng.randint(1, 6), dtype=np.float32)
        elif kind == 1:
            arr = np.ones((2, rng.randint(1, 3)), dtype=np.int64)
        elif kind == 2:
            arr = np.array(rng.random(), dtype=np.float64)
        elif kind == 3:
            arr = np.zeros((rng.randint(1, 3), 2, 1), dtype=np.float16)
        else:
            arr = np.array([True, False, True])
        return ir.tensor(arr, name=name)

    def decorate_meta(self, obj) -> None:
        rng = self.rng
        if not self.spec.get("meta", True):
            return
        if rng.random() < 0.45:
            obj.metadata_props[rng.choice(["k1", "k2", "origin"])] = rng.choice(["p", "q", "r"])
            if rng.random() < 0.3:
                obj.metadata_props["extra"] = "e"
        if rng.random() < 0.45:
            obj.meta[rng.choice(["k1", "k2"])] = rng.choice([1, "s", 2.5, (1, 2)])
        if rng.random() < 0.3:
            obj.meta["L"] = [rng.randint(0, 9), [rng.randint(0, 9)]]
        if rng.random() < 0.15:
            obj.meta["D"] = {"a": [1], "b": rng.randint(0, 9)}
        if rng.random() < 0.12:
            obj.meta["stale"] = 7
            obj.meta.invalidate("stale")
        if rng.random() < 0.06:
            obj.meta.invalidate("ghost")  # invalidated without a value

    def decorate_value(self, v: ir.Value, name: str | None = None, typed: bool | None = None) -> ir.Value:
        rng = self.rng
        v.name = name or self.nm("v")
        if typed is None or typed:
            v.type = self.mk_type()
            v.shape = self.mk_shape()
        if rng.random() < 0.25:
            v.doc_string = rng.choice(["doc", "", "value doc"])
        self.decorate_meta(v)
        return v

    def new_value(self, prefix="v") -> ir.Value:
        return self.decorate_value(ir.Value(name=None), self.nm(prefix))

    def new_initializer(self) -> ir.Value:
        name = self.nm("w")
        t = self.mk_tensor(name)
        v = ir.Value(name=name, const_value=t, type=ir.TensorType(t.dtype), shape=ir.Shape(list(t.shape)))
        if self.rng.random() < 0.2:
            v.type = None
            v.shape = None
        self.decorate_meta(v)
        return v

    # ---- attributes ---------------------------------------------------------------------------
    def plain_attr(self, key=None):
        rng = self.rng
        kind = rng.randrange(12)
        key = key or self.nm("a")
        doc = rng.choice([None, None, "attr doc"])
        if kind == 0:
            return ir.AttrInt64(key, rng.randint(-3, 9), doc_string=doc)
        if kind == 1:
            return ir.AttrFloat32(key, rng.choice([0.5, -1.25, 3.0]), doc_string=doc)
        if kind == 2:
            return ir.AttrString(key, rng.choice(["s", "", "héllo"]), doc_string=doc)
        if kind == 3:
            return ir.AttrInt64s(key, [rng.randint(0, 4) for _ in range(rng.randint(0, 3))], doc_string=doc)
        if kind == 4:
            return ir.AttrFloat32s(key, [0.5 * i for i in range(rng.randint(0, 3))], doc_string=doc)
        if kind == 5:
            return ir.AttrStrings(key, ["a", "b"][: rng.randint(0, 2)], doc_string=doc)
        if kind == 6:
            return ir.AttrTensor(key, self.mk_tensor(self.nm("t")), doc_string=doc)
        if kind == 7:
            return ir.AttrTensors(key, [self.mk_tensor(self.nm("t")) for _ in range(rng.randint(1, 2))], doc_string=doc)
        if kind == 8:
            return ir.AttrTypeProto(key, ir.TypeAndShape(ir.TensorType(rng.choice(DTYPES)), ir.Shape([1, "K"])), doc_string=doc)
        if kind == 9:
            return ir.AttrTypeProtos(
                key,
                [ir.TypeAndShape(ir.TensorType(DT.FLOAT), None),
                 ir.TypeAndShape(ir.SequenceType(ir.TensorType(DT.INT64)), None)],
                doc_string=doc,
            )
        if kind == 10:
            return ir.AttrInt64(key, 0, doc_string=doc)
        return ir.AttrString(key, "x" * rng.randint(1, 5), doc_string=doc)

    # ---- nodes / graphs -----------------------------------------------------------------------
    def pick_inputs(self, scope: list, outer: list, k: int) -> list:
        rng = self.rng
        ins = []
        for _ in range(k):
            r = rng.random()
            if r < 0.08:
                ins.append(None)
            elif outer and r < 0.45:
                ins.append(rng.choice(outer))  # lexically scoped capture
            elif scope:
                # recent values preferred so that chains form
                ins.append(scope[-1 - min(len(scope) - 1, int(rng.expovariate(0.6)))])
            elif outer:
                ins.append(rng.choice(outer))
            else:
                ins.append(None)
        if ins and rng.random() < 0.15:
            ins.append(rng.choice(ins))  # the same value twice
        return ins

    def build_node(self, depth: int, local: list, outer: list) -> ir.Node:
        rng = self.rng
        func_params = self.cur_params
        attrs = []
        domain, op_type, overload = "", rng.choice(["Add", "Relu", "Identity", "Concat", "Split", "Neg"]), ""
        nout = rng.choice([1, 1, 1, 2, 3, 0])
        nin = rng.randint(0, 3)
        r = rng.random()
        can_nest = depth > 0 and self.budget_graphs > 0
        visible_outer = outer + local  # what a nested graph may capture
        if can_nest and r < 0.30:
            op_type = "If"
            attrs.append(ir.AttrGraph("then_branch", self.build_graph(depth - 1, visible_outer, self.nm("then")),
                                      doc_string=rng.choice([None, "then"])))
            attrs.append(ir.AttrGraph("else_branch", self.build_graph(depth - 1, visible_outer, self.nm("else"))))
            nin = 1
        elif can_nest and r < 0.42:
            op_type = "Loop"
            attrs.append(ir.AttrGraph("body", self.build_graph(depth - 1, visible_outer, self.nm("body"), min_inputs=1)))
        elif can_nest and r < 0.52:
            domain, op_type = "custom.domain", "Switch"
            gs = [self.build_graph(depth - 1, visible_outer, self.nm("case")) for _ in range(rng.randint(1, 3))]
            attrs.append(ir.AttrGraphs("branches", gs, doc_string=rng.choice([None, "cases"])))
        elif self.functions and r < 0.64:
            f = rng.choice(self.functions)
            domain, op_type, overload = f.domain, f.name, f.overload
            nin, nout = len(f.inputs), len(f.outputs)
            if rng.random() < 0.6:
                attrs.append(ir.AttrFloat32("alpha", 2.0))
        elif r < 0.72:
            domain, op_type = "custom.domain", rng.choice(["Custom", "Fused"])
        elif r < 0.78:
            op_type, nin, nout = "Constant", 0, 1
            attrs.append(ir.AttrTensor("value", self.mk_tensor(self.nm("c"))))
        for _ in range(rng.choice([0, 0, 1, 1, 2, 4])):
            attrs.append(self.plain_attr())
        if func_params and rng.random() < 0.5:
            pname, ptype = rng.choice(func_params)
            attrs.append(ir.RefAttr(self.nm("ra"), pname, ptype, doc_string=rng.choice([None, "ref"])))
        ins = self.pick_inputs(local, outer, nin)
        node = ir.Node(
            domain, op_type, ins, attrs, overload=overload, num_outputs=nout,
            version=rng.choice([None, None, 13, 20]), name=self.nm("n"),
            doc_string=rng.choice([None, None, "node doc"]),
        )
        for o in node.outputs:
            self.decorate_value(o)
            if op_type == "Constant" and rng.random() < 0.5:
                o.const_value = attrs[0].value
        self.decorate_meta(node)
        self.all_nodes.append(node)
        return node

    def build_graph(self, depth: int, outer: list, name: str, *, main: bool = False, min_inputs: int = 0,
                    func_params: list | None = None, n_nodes: int | None = None) -> ir.Graph:
        rng = self.rng
        self.budget_graphs -= 1
        n_in = rng.randint(max(min_inputs, 2 if main else 0), 3 if main else 2)
        inputs = [self.new_value("i") for _ in range(n_in)]
        inits = []
        n_init = self.spec.get("inits", 1) if main else rng.choice([0, 0, 1])
        for _ in range(n_init):
            inits.append(self.new_initializer())
        if len(inits) >= 2 and rng.random() < 0.5:
            # two initializers backed by the same tensor object
            inits[1].const_value = inits[0].const_value
            inits[1].type = ir.TensorType(inits[0].const_value.dtype)
            inits[1].shape = ir.Shape(list(inits[0].const_value.shape))
        if inits and main and rng.random() < 0.3:
            inputs.append(inits[0])  # an initializer that is also a graph input
        local = list(inputs) + [v for v in inits if v not in inputs]
        nodes = []
        if n_nodes is None:
            n_nodes = self.spec.get("nodes", 4) if main else rng.randint(1, 3)
        for _ in range(n_nodes):
            node = self.build_node(depth, local, outer)
            nodes.append(node)
            local.extend(node.outputs)
        produced = [o for n in nodes for o in n.outputs]
        pool = produced or list(inputs)
        outputs = []
        for _ in range(rng.randint(1, 2) if pool else 0):
            outputs.append(rng.choice(pool))
        if inputs and rng.random() < 0.1:
            outputs.append(rng.choice(inputs))  # an input passed through
        if outputs and rng.random() < 0.1:
            outputs.append(outputs[0])  # the same value listed twice
        opsets = None
        if main or func_params is not None:
            opsets = {"": rng.choice([18, 20]), "custom.domain": 1}
            if self.functions or func_params is not None:
                opsets["fdom"] = 1
        g = ir.Graph(inputs, outputs, nodes=nodes, initializers=inits, name=name,
                     doc_string=rng.choice([None, None, "graph doc"]), opset_imports=opsets)
        self.decorate_meta(g)
        return g

    def build_function(self) -> ir.Function:
        rng = self.rng
        params = [("alpha", ir.AttributeType.FLOAT), ("beta", ir.AttributeType.INT)]
        self.budget_graphs += 2
        self.cur_params = params
        body = self.build_graph(min(self.spec.get("depth", 1), 1), [], self.nm("fbody"), min_inputs=1,
                                func_params=params, n_nodes=rng.randint(1, 3))
        self.cur_params = None
        attrs = [ir.AttrFloat32("alpha", 1.0, doc_string=rng.choice([None, "default"])),
                 ir.Attr("beta", ir.AttributeType.INT, None)]
        if rng.random() < 0.3:
            attrs.append(ir.AttrString("mode", "m"))
        f = ir.Function("fdom", self.nm("f"), rng.choice(["", "", "ov1"]), graph=body, attributes=attrs)
        return f

    # ---- device annotations -------------------------------------------------------------------
    def annotate_devices(self, model: ir.Model) -> None:
        rng = self.rng
        cfgs = [model.add_device_configuration("cfgA", device_names=("d0", "d1"))]
        if rng.random() < 0.6:
            cfgs.append(model.add_device_configuration("cfgB", num_devices=4))
        for node in self.all_nodes:
            if rng.random() > 0.45:
                continue
            cfg = rng.choice(cfgs)
            io = [v for v in list(node.inputs) + list(node.outputs) if v is not None and v.name]
            for _ in range(rng.randint(0, 2)):
                if not io:
                    break
                v = rng.choice(io)
                rank = len(v.shape) if v.shape is not None else None
                axis = rng.randrange(-rank, rank) if rank else (0 if rank is None else None)
                if axis is None:
                    continue
                try:
                    node.shard(v, configuration=cfg, axis=axis, num_shards=rng.choice([1, 2, 4]),
                               device_indices=tuple(range(rng.randint(0, cfg.num_devices))),
                               pipeline_stage=rng.choice([None, None, 0]))
                except ValueError:
                    pass  # already sharded along that axis / conflicting stage
            if rng.random() < 0.4:
                node.set_pipeline_stage(rng.choice(cfgs), rng.randint(0, 3))

    # ---- whole models -------------------------------------------------------------------------
    def build_struct(self) -> ir.Model:
        rng = self.rng
        for _ in range(self.spec.get("funcs", 0)):
            self.functions.append(self.build_function())
        self.budget_graphs = 10
        main = self.build_graph(self.spec.get("depth", 1), [], self.nm("main"), main=True)
        dev = self.spec.get("dev", False)
        model = ir.Model(
            main, ir_version=11 if dev else rng.choice([8, 10]),
            producer_name=rng.choice([None, "vfpy"]), producer_version=rng.choice([None, "1.0"]),
            domain=rng.choice([None, "dom"]), model_version=rng.choice([None, 3]),
            doc_string=rng.choice([None, "model doc"]), functions=self.functions,
        )
        if self.spec.get("meta", True):
            if rng.random() < 0.5:
                model.metadata_props["mk"] = "mv"
            if rng.random() < 0.4:
                model.meta["k1"] = [1, 2]
        if dev:
            self.annotate_devices(model)
        return model

    def build_exec(self) -> ir.Model:
        """Small plausible model over real operators (float tensors of one shape)."""
        rng = self.rng
        F = DT.FLOAT

        def tt(kind=None):
            kind = rng.randrange(4) if kind is None else kind
            if kind == 0:
                return None, None
            if kind == 1:
                return ir.TensorType(DT.UNDEFINED), None  # declared but not yet known element type
            return ir.TensorType(F), ir.Shape([2, "N"])

        x = ir.Value(name="x", type=ir.TensorType(F), shape=ir.Shape([2, "N"]))
        y = ir.Value(name="y", type=ir.TensorType(F), shape=ir.Shape([2, "N"]))
        cond = ir.Value(name="cond", type=ir.TensorType(DT.BOOL), shape=ir.Shape([]))
        inits = []
        for i in range(max(1, self.spec.get("inits", 1))):
            arr = np.full((2, 1), float(i % 2), dtype=np.float32)
            nm = f"w{i}"
            inits.append(ir.Value(name=nm, const_value=ir.tensor(arr, name=nm), type=ir.TensorType(F), shape=ir.Shape([2, 1])))
        if self.spec.get("funcs", 0):
            fx = ir.Value(name="fx", type=ir.TensorType(F))
            n1 = ir.Node("", "Relu", [fx], num_outputs=1, name="f_relu")
            n1.outputs[0].name = "f_r"
            n2 = ir.Node("", "Add", [n1.outputs[0], fx], num_outputs=1, name="f_add")
            n2.outputs[0].name = "f_out"
            body = ir.Graph([fx], [n2.outputs[0]], nodes=[n1, n2], name="fbody", opset_imports={"": 20})
            self.functions.append(ir.Function("fdom", "ReluAdd", graph=body, attributes=[]))
        local = [x, y] + inits
        nodes = []

        def add(op, ins, attrs=(), domain="", k=None):
            n = ir.Node(domain, op, ins, list(attrs), num_outputs=1, name=self.nm("n"))
            o = n.outputs[0]
            o.name = self.nm("t")
            o.type, o.shape = tt(k)
            if rng.random() < 0.3:
                o.metadata_props["k1"] = "p"
            if rng.random() < 0.2:
                n.doc_string = "d"
            nodes.append(n)
            self.all_nodes.append(n)
            return o

        def branch(name):
            a = rng.choice(local)
            b = rng.choice(local)
            n = ir.Node("", rng.choice(["Add", "Mul"]), [a, b], num_outputs=1, name=self.nm("bn"))
            n.outputs[0].name = self.nm("bt")
            n.outputs[0].type, n.outputs[0].shape = tt()
            self.all_nodes.append(n)
            return ir.Graph([], [n.outputs[0]], nodes=[n], name=name)

        for _ in range(self.spec.get("nodes", 4)):
            r = rng.random()
            if r < 0.3:
                local.append(add(rng.choice(["Relu", "Neg", "Abs", "Identity", "Identity"]), [rng.choice(local)]))
            elif r < 0.6:
                local.append(add(rng.choice(["Add", "Mul", "Sub"]), [rng.choice(local), rng.choice(local)]))
            elif r < 0.7:
                c = ir.tensor(np.full((2, 1), 3.0, dtype=np.float32), name=self.nm("c"))
                local.append(add("Constant", [], [ir.AttrTensor("value", c)]))
            elif r < 0.8 and self.functions:
                local.append(add("ReluAdd", [rng.choice(local)], domain="fdom"))
            elif r < 0.92 and self.spec.get("depth", 1) > 0:
                o = add("If", [cond], [ir.AttrGraph("then_branch", branch(self.nm("then"))),
                                       ir.AttrGraph("else_branch", branch(self.nm("else")))])
                local.append(o)
            else:
                add("Relu", [rng.choice(local)])  # unused node
        outs = [local[-1]] if nodes else [x]
        if outs[0].producer() is None:
            outs = [add("Identity", [x], k=2)]
        for o in outs:
            if o.type is None or o.type.dtype == DT.UNDEFINED:
                o.type, o.shape = ir.TensorType(F), ir.Shape([2, "N"])
        opsets = {"": 20}
        if self.functions:
            opsets["fdom"] = 1
        g = ir.Graph([x, y, cond], outs, nodes=nodes, initializers=inits, name="main", opset_imports=opsets)
        dev = self.spec.get("dev", False)
        model = ir.Model(g, ir_version=11 if dev else 10, producer_name="vfpy", functions=self.functions)
        if dev:
            self.annotate_devices(model)
        return model


def build(spec: dict) -> ir.Model:
    import random

    rng = random.Random(f"c13gen:{spec.get('seed', 0)}")
    b = Builder(rng, spec)
    return b.build_exec() if spec.get("family") == "exec" else b.build_struct()


# =============================================================================================
# Pass pipelines: the workload of the "a functionalized pass never alters its input model" clause
# =============================================================================================
# A pipeline is a JSON-able tree:
#   ["b", name]                         a built-in pass of onnx_ir.passes.common
#   ["s", declaration, seed, fails]      a synthetic pass that behaves exactly as it declares (below)
#   ["seq", [members]]                   ir.passes.Sequential(*members)
#   ["pm", [members], steps, early]      ir.passes.PassManager(members, steps=, early_stop=)
#   ["fn", member]                       ir.passes.functionalize(member) used as a member / nested
# The four declarations are the four cells of the table in PassBase's docstring.
DECLS = {  # name -> (in_place, changes_input)
    "in-place": (True, True),
    "side-effect-only": (True, False),
    "functional": (False, False),
    "destructive": (False, True),
}
DECL_NAMES = list(DECLS)


def decl_name(in_place: bool, changes_input: bool) -> str:
    for k, v in DECLS.items():
        if v == (bool(in_place), bool(changes_input)):
            return k
    return "?"


def _edit_node_meta(model, region, rng, tag):
    for n in region.nodes:
        n.metadata_props["c13." + tag] = "seen"
    return bool(region.nodes)


def _edit_graph_doc(model, region, rng, tag):
    g = rng.choice(region.graphs)
    g.doc_string = (g.doc_string or "") + "|" + tag
    g.metadata_props["c13." + tag] = "g"
    return True


def _edit_model_fields(model, region, rng, tag):
    model.producer_name = "c13-" + tag
    model.model_version = (model.model_version or 0) + 1
    model.metadata_props["c13." + tag] = "m"
    return True


def _produced(region):
    return [v for v in region.values if v.producer() is not None and v.name is not None]


def _edit_value_rename(model, region, rng, tag):
    cands = [v for v in _produced(region) if not v.is_graph_output()]
    if not cands:
        return False
    v = rng.choice(cands)
    v.name = f"{v.name}_{tag}"
    return True


def _edit_value_shape(model, region, rng, tag):
    cands = _produced(region)
    if not cands:
        return False
    v = rng.choice(cands)
    v.shape = ir.Shape([3, "c13_" + tag])
    v.metadata_props["c13." + tag] = "v"
    return True


def _edit_bypass(model, region, rng, tag):
    cands = [n for n in region.nodes
             if n.graph is not None and len(n.outputs) == 1 and len([i for i in n.inputs if i is not None]) == 1
             and not any(a.type in (ir.AttributeType.GRAPH, ir.AttributeType.GRAPHS) for a in n.attributes.values())]
    if not cands:
        return False
    def rewirable(n):
        # an output of the graph is only handed over to a value produced in the same graph that is
        # not an output yet (a value can be an output of one graph only)
        if not n.outputs[0].is_graph_output():
            return True
        src = next(i for i in n.inputs if i is not None)
        return src.producer() is not None and src.producer().graph is n.graph and not src.is_graph_output()

    cands = [n for n in cands if rewirable(n)]
    if not cands:
        return False
    n = rng.choice(cands)
    src = next(i for i in n.inputs if i is not None)
    n.outputs[0].replace_all_uses_with(src, replace_graph_outputs=True)
    n.graph.remove(n, safe=True)
    return True


def _edit_append_node(model, region, rng, tag):
    g = model.graph
    own = list(g.inputs) + [o for n in g for o in n.outputs]
    if not own:
        return False
    n = ir.Node("", "Identity", [rng.choice(own)], name="c13_node_" + tag)
    n.outputs[0].name = "c13_out_" + tag
    g.append(n)
    return True


def _edit_remove_unused(model, region, rng, tag):
    cands = [n for n in region.nodes if n.graph is not None
             and all(not o.uses() and not o.is_graph_output() for o in n.outputs)]
    if not cands:
        return False
    n = rng.choice(cands)
    n.graph.remove(n, safe=True)
    return True


def _edit_add_initializer(model, region, rng, tag):
    name = "c13_init_" + tag
    if name in model.graph.initializers:
        return False
    v = ir.Value(name=name, const_value=ir.tensor(np.array([1.0, 2.0], dtype=np.float32), name=name),
                 type=ir.TensorType(DT.FLOAT), shape=ir.Shape([2]))
    model.graph.register_initializer(v)
    return True


def _edit_opset(model, region, rng, tag):
    g = rng.choice(region.graphs)
    g.opset_imports["c13.domain"] = g.opset_imports.get("c13.domain", 0) + 1
    return True


def _edit_function(model, region, rng, tag):
    fs = list(model.functions.values())
    if not fs:
        return False
    f = rng.choice(fs)
    f.doc_string = (f.doc_string or "") + "|" + tag
    f.metadata_props["c13." + tag] = "f"
    return True


def _edit_node_attr(model, region, rng, tag):
    if not region.nodes:
        return False
    n = rng.choice(region.nodes)
    n.attributes["c13_" + tag] = ir.AttrInt64("c13_" + tag, 7)
    n.doc_string = (n.doc_string or "") + "|" + tag
    return True


PASS_EDITS = {
    "node_meta": _edit_node_meta, "graph_doc": _edit_graph_doc, "model_fields": _edit_model_fields,
    "value_rename": _edit_value_rename, "value_shape": _edit_value_shape, "bypass_node": _edit_bypass,
    "append_node": _edit_append_node, "remove_unused_node": _edit_remove_unused,
    "add_initializer": _edit_add_initializer, "opset_import": _edit_opset, "function_doc_meta": _edit_function,
    "node_attr_doc": _edit_node_attr,
}


class SyntheticFailure(RuntimeError):
    pass


def make_synthetic(decl: str, seed: int, fails: bool, log: list):
    """A user-style pass whose behaviour matches its declaration: 'in-place' edits the model it is
    given and returns it; 'side-effect-only' only reads it and returns it; 'functional' leaves it
    alone and returns an edited copy; 'destructive' edits it and returns a copy.  ``fails``: raise
    after the work is done (a pass that breaks half-way through a pipeline).  What it did is
    appended to ``log``.  Edits are ordinary public-API rewrites (PASS_EDITS)."""
    import random

    from onnx_ir import passes as ir_passes
    from vfpy.c13_lib import analyze_model

    in_place, changes_input = DECLS[decl]

    class Synthetic(ir_passes.PassBase):
        calls = 0

        @property
        def in_place(self) -> bool:
            return in_place

        @property
        def changes_input(self) -> bool:
            return changes_input

        def __repr__(self) -> str:
            return f"Synthetic[{decl}{'!raises' if fails else ''}]"

        def edit(self, model) -> None:
            self.calls += 1
            rng = random.Random(f"c13pass:{seed}:{self.calls}")
            tag = f"{seed % 1000}x{self.calls}"
            region, _ = analyze_model(model)
            names = sorted(PASS_EDITS)
            rng.shuffle(names)
            done = [nm for nm in names[: rng.randint(2, 4)] if PASS_EDITS[nm](model, region, rng, tag)]
            if not done:
                _edit_model_fields(model, region, rng, tag)
                done = ["model_fields"]
            log.extend(f"{decl}:{nm}" for nm in done)

        def call(self, model):
            if decl == "in-place":
                self.edit(model)
                out = model
            elif decl == "side-effect-only":
                region, _ = analyze_model(model)
                log.append(f"{decl}:read({len(region.nodes)} nodes)")
                out = model
            elif decl == "functional":
                out = model.clone()
                self.edit(out)
            else:
                self.edit(model)
                out = model.clone()
            if fails:
                raise SyntheticFailure(f"synthetic {decl} pass gives up after its work")
            return ir_passes.PassResult(out, decl != "side-effect-only")

    return Synthetic()


def build_pipeline(tree, log: list):
    from onnx_ir import passes as ir_passes
    from onnx_ir.passes import common as common_passes

    k = tree[0]
    if k == "b":
        return getattr(common_passes, tree[1])()
    if k == "s":
        return make_synthetic(tree[1], tree[2], bool(tree[3]), log)
    if k == "seq":
        return ir_passes.Sequential(*[build_pipeline(t, log) for t in tree[1]])
    if k == "pm":
        return ir_passes.PassManager([build_pipeline(t, log) for t in tree[1]], steps=tree[2], early_stop=bool(tree[3]))
    if k == "fn":
        return ir_passes.functionalize(build_pipeline(tree[1], log))
    raise ValueError(f"unknown pipeline node {tree!r}")


TOP_KIND = {"b": "built-in pass", "s": "user-defined pass", "seq": "Sequential", "pm": "PassManager",
            "fn": "functionalized pass"}


def top_kind(tree) -> str:
    return TOP_KIND[tree[0]]


def describe_pipeline(tree) -> str:
    k = tree[0]
    if k == "b":
        return tree[1]
    if k == "s":
        return f"<{tree[1]}{'!raises' if tree[3] else ''}>"
    if k == "seq":
        return "Sequential(" + ", ".join(describe_pipeline(t) for t in tree[1]) + ")"
    if k == "pm":
        return f"PassManager[steps={tree[2]},early_stop={bool(tree[3])}](" + ", ".join(describe_pipeline(t) for t in tree[1]) + ")"
    return "functionalize(" + describe_pipeline(tree[1]) + ")"


def leaves(tree) -> list:
    k = tree[0]
    if k in ("b", "s"):
        return [tree]
    if k == "fn":
        return leaves(tree[1])
    return [x for t in tree[1] for x in leaves(t)]


def leaf_class(leaf) -> str:
    """Declaration class of a leaf, for counters (built-ins are all in-place but CheckerPass)."""
    if leaf[0] == "s":
        return leaf[1] + ("!raises" if leaf[3] else "")
    return "built-in:" + ("side-effect-only" if leaf[1] == "CheckerPass" else "in-place")


C_API_PASSES = ("CheckerPass", "ShapeInferencePass")


def gen_pipeline(rng, family: str, builtins: list) -> dict:
    """One pipeline description {'tree', 'arg', 'repeat'}.  The first member's declaration is drawn
    uniformly from the four declaration classes (the flags of a Sequential are derived from its
    first member), the others freely; members may be nested Sequential / PassManager objects and
    functionalized passes.  Passes that call into onnx's C++ (which can crash on the structural
    family) are used on the 'exec' family only and only as the very first pass to run."""
    plain = [p for p in builtins if p not in C_API_PASSES]

    def synthetic(decl=None):
        return ["s", decl or rng.choice(DECL_NAMES), rng.randrange(1 << 20), rng.random() < 0.06]

    def member(depth, lead, first):
        if first:
            decl = rng.choice(DECL_NAMES)
            if decl == "side-effect-only" and lead and family == "exec" and rng.random() < 0.5:
                return ["b", "CheckerPass"]
            if decl == "in-place" and rng.random() < 0.5:
                if lead and family == "exec" and rng.random() < 0.15:
                    return ["b", "ShapeInferencePass"]
                return ["b", rng.choice(plain)]
            if decl == "functional" and rng.random() < 0.3:
                return ["fn", member(depth + 1, lead, False)]
            return synthetic(decl)
        r = rng.random()
        if depth < 2 and r < 0.12:
            return composite(depth + 1, lead)
        if r < 0.18:
            return ["fn", member(depth + 1, lead, False)]
        if r < 0.45:
            return ["b", rng.choice(plain)]
        return synthetic()

    def composite(depth, lead):
        n = rng.randint(2, 4) if depth == 0 else rng.randint(1, 3)
        members = [member(depth, lead and i == 0, i == 0) for i in range(n)]
        if rng.random() < 0.35:
            return ["pm", members, rng.choice([1, 2, 2, 3]), rng.random() < 0.5]
        return ["seq", members]

    r = rng.random()
    if r < 0.08:
        tree = synthetic()
    elif r < 0.16:
        tree = ["fn", composite(0, True)]
    else:
        tree = composite(0, True)
    return {"tree": tree, "arg": "result" if rng.random() < 0.2 else "model", "repeat": 2 if rng.random() < 0.15 else 1}


def pipeline_reductions(pipe: dict):
    """Simpler variants of a pipeline description, for greedy shrinking."""
    if pipe.get("arg") != "model":
        yield dict(pipe, arg="model")
    if pipe.get("repeat", 1) != 1:
        yield dict(pipe, repeat=1)

    def variants(tree):
        k = tree[0]
        if k == "s" and tree[3]:
            yield ["s", tree[1], tree[2], False]
        elif k == "fn":
            yield tree[1]
            for v in variants(tree[1]):
                yield ["fn", v]
        elif k in ("seq", "pm"):
            ms = tree[1]
            if len(ms) > 1:
                for i in range(len(ms)):
                    yield [k, ms[:i] + ms[i + 1:]] + tree[2:]
            else:
                yield ms[0]
            if k == "pm":
                if tree[2] != 1:
                    yield ["pm", ms, 1, tree[3]]
                yield ["seq", ms]
            for i, m in enumerate(ms):
                if m[0] == "b":
                    yield [k, ms[:i] + [["s", leaf_class(m).split(":")[1], 1, False]] + ms[i + 1:]] + tree[2:]
                for v in variants(m):
                    yield [k, ms[:i] + [v] + ms[i + 1:]] + tree[2:]

    for v in variants(pipe["tree"]):
        yield dict(pipe, tree=v)
