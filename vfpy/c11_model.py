"""C11 reference model (oracle layer L2), written from the property statement, not from the code.

The statement: iteration (forwards, backwards, recursively through subgraphs) over a node sequence
that is being edited yields only current members, yields nodes inserted after the current position
and skips nodes inserted before it, and "when the current node is removed or moved, iteration
resumes with the node that followed it at its original place".

Model
-----
* a graph is a Python list of node *incarnations* (``Inc``): every time a node enters a sequence
  (fresh insertion, or re-insertion by a move) it gets a new incarnation; removing or moving a node
  kills its current incarnation;
* a killed incarnation records the live incarnation that followed it (``succ``) and the one that
  preceded it (``pred``, for backward iteration) *at that moment* - "the node that followed it at
  its original place";
* an iterator remembers only the incarnation it yielded last.  ``next()`` goes to the current
  successor when that incarnation is still live, to the recorded successor when it was killed, and
  repeats this while it lands on killed incarnations (the follower was removed/moved as well), until
  a live incarnation or the end of the sequence;
* a recursive iterator is a stack of such cursors: after yielding a node it walks the node's
  subgraphs (attribute order; the members of a GRAPHS attribute right-to-left when iterating
  backwards), then continues behind the node in its own sequence.

Nothing in here imports or calls onnx_ir.
"""

from __future__ import annotations

ROOT = "ROOT"  # cursor position "before the first element" of a not yet started iterator


class Inc:
    """One stay of node ``n`` in a sequence."""

    __slots__ = ("n", "live", "succ", "pred", "born")

    def __init__(self, n: int, born: int) -> None:
        self.n = n
        self.live = True
        self.succ: Inc | None = None  # recorded when killed; None = end of the sequence
        self.pred: Inc | None = None
        self.born = born

    def __repr__(self) -> str:
        return f"n{self.n}{'' if self.live else '+'}"


class MGraph:
    """Reference sequence of one graph."""

    def __init__(self, gid: int) -> None:
        self.gid = gid
        self.seq: list[Inc] = []
        self.cur: dict[int, Inc] = {}
        self.born = 0  # incarnations ever created here

    # -- queries ------------------------------------------------------------------------------
    def order(self) -> list[int]:
        return [i.n for i in self.seq]

    def __contains__(self, n: int) -> bool:
        return n in self.cur

    def __len__(self) -> int:
        return len(self.seq)

    def pos(self, inc: Inc) -> int:
        for k, x in enumerate(self.seq):
            if x is inc:
                return k
        raise AssertionError("harness bug: incarnation not in its sequence")

    # -- edits --------------------------------------------------------------------------------
    def _kill(self, inc: Inc) -> None:
        k = self.pos(inc)
        inc.succ = self.seq[k + 1] if k + 1 < len(self.seq) else None
        inc.pred = self.seq[k - 1] if k > 0 else None
        inc.live = False
        del self.seq[k]
        del self.cur[inc.n]

    def _new(self, n: int, k: int) -> Inc:
        self.born += 1
        inc = Inc(n, self.born)
        self.seq.insert(k, inc)
        self.cur[n] = inc
        return inc

    def remove(self, n: int) -> Inc:
        inc = self.cur[n]
        self._kill(inc)
        return inc

    def place_after(self, anchor: Inc | None, n: int) -> tuple[Inc, Inc | None, bool]:
        """Put node ``n`` directly behind the live incarnation ``anchor`` (``None`` = at the front).
        A node that is already a member is moved (old incarnation killed, new one created).
        Returns ``(new incarnation, killed incarnation or None, degenerate)`` where *degenerate*
        says that a member was "moved" to the place it already occupied."""
        old = self.cur.get(n)
        if old is None:
            k = 0 if anchor is None else self.pos(anchor) + 1
            return self._new(n, k), None, False
        before = self.order()
        if anchor is old:  # behind itself: stays where it is
            k = self.pos(old)
            self._kill(old)
            return self._new(n, k), old, True
        self._kill(old)
        k = 0 if anchor is None else self.pos(anchor) + 1
        new = self._new(n, k)
        return new, old, before == self.order()


class MFlat:
    """Model of ``iter(graph)`` / ``reversed(graph)``."""

    def __init__(self, g: MGraph, reverse: bool) -> None:
        self.g = g
        self.rev = reverse
        self.cur: Inc | str = ROOT
        self.done = False
        self.hops = 0  # recorded-successor links followed (tombstone hops)

    def peek(self, count: bool = False) -> Inc | None:
        c = self.cur
        seq = self.g.seq
        if c is ROOT:
            cand = (seq[-1] if self.rev else seq[0]) if seq else None
        elif c.live:  # type: ignore[union-attr]
            k = self.g.pos(c)  # type: ignore[arg-type]
            if self.rev:
                cand = seq[k - 1] if k > 0 else None
            else:
                cand = seq[k + 1] if k + 1 < len(seq) else None
        else:
            cand = c.pred if self.rev else c.succ  # type: ignore[union-attr]
            if count:
                self.hops += 1
        while cand is not None and not cand.live:
            cand = cand.pred if self.rev else cand.succ
            if count:
                self.hops += 1
        return cand

    def next(self) -> Inc | None:
        if self.done:
            return None
        cand = self.peek(count=True)
        if cand is None:
            self.done = True
            return None
        self.cur = cand
        return cand

    def depends_on(self, inc: Inc) -> bool:
        """Would treating ``inc`` as killed-vs-untouched change what this iterator yields next?
        True when parked on it, or parked on a killed incarnation whose chain currently ends at it."""
        c = self.cur
        if c is inc:
            return True
        if c is ROOT or self.done or c.live:  # type: ignore[union-attr]
            return False
        return self.peek() is inc

    def flats(self) -> list["MFlat"]:
        return [self]


class MRec:
    """Model of a recursive traversal: node first, then its subgraphs, in both directions."""

    def __init__(self, graphs: dict[int, MGraph], subgraphs: dict[int, list], gid: int, reverse: bool,
                 no_descend: frozenset[int] = frozenset()) -> None:
        self.graphs = graphs
        self.subgraphs = subgraphs  # node -> [["G", gid] | ["GS", [gid, ...]], ...]
        self.rev = reverse
        self.no_descend = no_descend
        self.stack: list[list] = [[MFlat(graphs[gid], reverse), []]]
        self.done = False
        self.hops = 0

    def _sub_order(self, n: int) -> list[int]:
        if n in self.no_descend:
            return []
        out: list[int] = []
        for kind, val in self.subgraphs.get(n, ()):
            if kind == "G":
                out.append(val)
            else:
                out.extend(reversed(val) if self.rev else val)
        return out

    def next(self) -> Inc | None:
        while self.stack:
            frame = self.stack[-1]
            if frame[1]:
                gid = frame[1].pop(0)
                self.stack.append([MFlat(self.graphs[gid], self.rev), []])
                continue
            flat: MFlat = frame[0]
            h0 = flat.hops
            inc = flat.next()
            self.hops += flat.hops - h0
            if inc is None:
                self.stack.pop()
                continue
            frame[1] = self._sub_order(inc.n)
            return inc
        self.done = True
        return None

    def flats(self) -> list[MFlat]:
        return [f[0] for f in self.stack]

    def top_graph(self) -> MGraph | None:
        return self.stack[-1][0].g if self.stack else None
