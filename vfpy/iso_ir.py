"""Structural isomorphism of two IR models through public accessors (the C03 oracle).

Values are matched by *role* (position among graph inputs / node outputs, initializer key) and
every later use must hit the same partner (a bijection), so connectivity, sharing between
scopes and captured values are compared by identity, not by name; names are then compared as
one attribute among others.  Returns a list of human-readable differences (empty = isomorphic).

Not compared because the format does not carry it (documented): Node.version, meta stores,
const_value of values that are not initializers, opset imports of nested graphs.
Normalisations: unset == default for optional scalars (None == "" for strings, None == 0 for
model_version), trailing empty-named node outputs may be trimmed.
"""

from __future__ import annotations

import math

import numpy as np
import onnx_ir as ir


class Iso:
    def __init__(self, compare_initializer_order=True):
        self.diffs: list[str] = []
        self.fwd: dict[int, object] = {}
        self.bwd: dict[int, object] = {}
        self.keep = []
        self.compare_initializer_order = compare_initializer_order
        self.compare_device_configurations = False
        self.model_cfgs = ((), ())

    def d(self, path, msg):
        if len(self.diffs) < 25:
            self.diffs.append(f"{path}: {msg}")

    # ---- scalars --------------------------------------------------------------------------
    @staticmethod
    def _s(x):
        return "" if x is None else x

    def scalar(self, path, a, b, default=""):
        a = default if a is None else a
        b = default if b is None else b
        if a != b:
            self.d(path, f"{a!r} != {b!r}")

    def mdict(self, path, a, b):
        if dict(a or {}) != dict(b or {}):
            self.d(path, f"metadata {dict(a or {})!r} != {dict(b or {})!r}")

    # ---- types / shapes / tensors -----------------------------------------------------------
    def type_(self, path, a, b):
        if a is None or b is None:
            if a is not b:
                self.d(path, f"type {a!r} != {b!r}")
            return
        if type(a) is not type(b):
            self.d(path, f"type class {type(a).__name__} != {type(b).__name__}")
            return
        self.scalar(path + ".denotation", a.denotation, b.denotation)
        if isinstance(a, (ir.TensorType, ir.SparseTensorType)):
            if a.dtype != b.dtype:
                self.d(path, f"dtype {a.dtype} != {b.dtype}")
        else:
            self.type_(path + ".elem", a.elem_type, b.elem_type)

    def shape(self, path, a, b):
        if a is None or b is None:
            if a is not b:
                self.d(path, f"shape {a!r} != {b!r}")
            return
        if len(a) != len(b):
            self.d(path, f"rank {len(a)} != {len(b)}")
            return
        for i, (x, y) in enumerate(zip(a, b)):
            xv = x.value if isinstance(x, ir.SymbolicDim) else x
            yv = y.value if isinstance(y, ir.SymbolicDim) else y
            if isinstance(x, ir.SymbolicDim) != isinstance(y, ir.SymbolicDim) or xv != yv:
                self.d(f"{path}[{i}]", f"dim {x!r} != {y!r}")
            if self._s(a.get_denotation(i)) != self._s(b.get_denotation(i)):
                self.d(f"{path}[{i}].denotation", f"{a.get_denotation(i)!r} != {b.get_denotation(i)!r}")

    def tensor(self, path, a, b, compare_name=True):
        if a is None or b is None:
            if a is not b:
                self.d(path, f"tensor {a!r} != {b!r}")
            return
        if a.dtype != b.dtype:
            self.d(path, f"tensor dtype {a.dtype} != {b.dtype}")
            return
        if tuple(a.shape) != tuple(b.shape):
            self.d(path, f"tensor shape {a.shape} != {b.shape}")
            return
        if compare_name:
            self.scalar(path + ".name", a.name, b.name)
        self.scalar(path + ".doc_string", a.doc_string, b.doc_string)
        self.mdict(path + ".metadata_props", getattr(a, "metadata_props", None), getattr(b, "metadata_props", None))
        if a.dtype == ir.DataType.STRING:
            sa = [bytes(x) for x in np.asarray(a.numpy()).flatten().tolist()] if a.size else []
            sb = [bytes(x) for x in np.asarray(b.numpy()).flatten().tolist()] if b.size else []
            if sa != sb:
                self.d(path, f"string payload {sa!r} != {sb!r}")
        else:
            if a.tobytes() != b.tobytes():
                self.d(path, "tensor bytes differ")
            else:
                # the element VALUES as well: bytes produced in the wrong memory order round-trip to
                # equal bytes but to permuted values
                try:
                    xa, xb = np.ascontiguousarray(a.numpy()), np.ascontiguousarray(b.numpy())
                    if xa.shape != xb.shape or xa.tobytes() != xb.tobytes():
                        self.d(path, "tensor values (numpy()) differ although tobytes() agree")
                except Exception as e:  # noqa: BLE001
                    self.d(path, f"tensor numpy() raised {type(e).__name__}")

    # ---- values -------------------------------------------------------------------------------
    def match(self, path, a, b) -> bool:
        """Record/verify that value a of the left model corresponds to value b of the right one."""
        if a is None or b is None:
            if a is not b:
                self.d(path, f"value {a!r} != {b!r}")
            return False
        pa, pb = self.fwd.get(id(a)), self.bwd.get(id(b))
        if pa is None and pb is None:
            self.fwd[id(a)] = b
            self.bwd[id(b)] = a
            self.keep.append((a, b))
            self.value_attrs(path, a, b)
            return True
        if pa is not b or pb is not a:
            self.d(path, f"connectivity differs: left value {a.name!r} is paired with {getattr(pa, 'name', None)!r}, "
                         f"right value {b.name!r} with {getattr(pb, 'name', None)!r}")
            return False
        return True

    def value_attrs(self, path, a, b):
        path = f"{path}<{a.name}>"
        self.scalar(path + ".name", a.name, b.name)
        if not a.name:
            return  # an unnamed (omitted optional) output has no value_info entry in the format
        # an initializer's type/shape is implied by its tensor: a missing one may be filled in from it
        t = b.const_value if b.is_initializer() else None
        if not (a.type is None and t is not None and isinstance(b.type, ir.TensorType) and b.type.dtype == t.dtype):
            self.type_(path + ".type", a.type, b.type)
        if not (a.shape is None and t is not None and b.shape is not None and list(b.shape) == list(t.shape)):
            self.shape(path + ".shape", a.shape, b.shape)
        self.scalar(path + ".doc_string", a.doc_string, b.doc_string)
        self.mdict(path + ".metadata_props", a.metadata_props, b.metadata_props)

    # ---- attributes / nodes / graphs --------------------------------------------------------------
    def attr(self, path, a, b, declaration=False):
        if not isinstance(a, ir.Attr) or not isinstance(b, ir.Attr):
            self.d(path, f"attribute classes {type(a).__name__} / {type(b).__name__}")
            return
        self.scalar(path + ".name", a.name, b.name)
        if declaration and not a.is_ref() and a.value is None:
            # FunctionProto.attribute is a list of names: the type of a parameter without default
            # is not representable in the format
            if b.value is not None:
                self.d(path, f"function parameter without default came back with value {b.value!r}")
            return
        if a.type != b.type:
            self.d(path, f"attribute type {a.type} != {b.type}")
            return
        self.scalar(path + ".doc_string", a.doc_string, b.doc_string)
        if a.is_ref() or b.is_ref():
            if a.ref_attr_name != b.ref_attr_name:
                self.d(path, f"ref_attr_name {a.ref_attr_name!r} != {b.ref_attr_name!r}")
            return
        T = ir.AttributeType
        va, vb = a.value, b.value
        if (va is None) != (vb is None):
            self.d(path, f"attribute value presence {va!r} / {vb!r}")
            return
        if va is None:
            return
        if a.type == T.FLOAT:
            if not _feq(np.float32(va), np.float32(vb)):
                self.d(path, f"float {va!r} != {vb!r}")
        elif a.type == T.FLOATS:
            if len(va) != len(vb) or any(not _feq(np.float32(x), np.float32(y)) for x, y in zip(va, vb)):
                self.d(path, f"floats {va!r} != {vb!r}")
        elif a.type in (T.INT, T.INTS, T.STRING, T.STRINGS):
            if (tuple(va) if not isinstance(va, (int, str, bytes)) else va) != (
                    tuple(vb) if not isinstance(vb, (int, str, bytes)) else vb):
                self.d(path, f"value {va!r} != {vb!r}")
        elif a.type == T.TENSOR:
            self.tensor(path + ".t", va, vb)
        elif a.type == T.TENSORS:
            if len(va) != len(vb):
                self.d(path, f"tensors len {len(va)} != {len(vb)}")
            for i, (x, y) in enumerate(zip(va, vb)):
                self.tensor(f"{path}.t[{i}]", x, y)
        elif a.type == T.GRAPH:
            self.graph(path + ".g", va, vb, top=False)
        elif a.type == T.GRAPHS:
            if len(va) != len(vb):
                self.d(path, f"graphs len {len(va)} != {len(vb)}")
            for i, (x, y) in enumerate(zip(va, vb)):
                self.graph(f"{path}.g[{i}]", x, y, top=False)
        elif a.type == T.TYPE_PROTO:
            self.type_(path + ".tp.type", va.type, vb.type)
            self.shape(path + ".tp.shape", va.shape, vb.shape)
        elif a.type == T.TYPE_PROTOS:
            if len(va) != len(vb):
                self.d(path, f"type_protos len {len(va)} != {len(vb)}")
            for i, (x, y) in enumerate(zip(va, vb)):
                self.type_(f"{path}.tp[{i}].type", x.type, y.type)
                self.shape(f"{path}.tp[{i}].shape", x.shape, y.shape)
        else:
            if repr(va) != repr(vb):
                self.d(path, f"value {va!r} != {vb!r}")

    def node(self, path, a, b):
        path = f"{path}<{a.op_type}>"
        self.scalar(path + ".op_type", a.op_type, b.op_type)
        self.scalar(path + ".domain", a.domain, b.domain)
        self.scalar(path + ".overload", a.overload, b.overload)
        self.scalar(path + ".name", a.name, b.name)
        self.scalar(path + ".doc_string", a.doc_string, b.doc_string)
        self.mdict(path + ".metadata_props", a.metadata_props, b.metadata_props)
        ia, ib = list(a.inputs), list(b.inputs)
        if len(ia) != len(ib):
            self.d(path, f"#inputs {len(ia)} != {len(ib)}")
        for i, (x, y) in enumerate(zip(ia, ib)):
            self.match(f"{path}.inputs[{i}]", x, y)
        oa, ob = _trim(list(a.outputs)), _trim(list(b.outputs))
        if len(oa) != len(ob):
            self.d(path, f"#outputs {len(oa)} != {len(ob)} (after trimming trailing empty names)")
        for i, (x, y) in enumerate(zip(oa, ob)):
            self.match(f"{path}.outputs[{i}]", x, y)
        ka, kb = list(a.attributes.keys()), list(b.attributes.keys())
        if sorted(ka) != sorted(kb):
            self.d(path, f"attribute names {ka} != {kb}")
        for k in ka:
            if k in b.attributes:
                self.attr(f"{path}.attr[{k}]", a.attributes[k], b.attributes[k])
        if self.compare_device_configurations:
            self.node_devcfg(path + ".device_configurations", a, b)

    def node_devcfg(self, path, a, b):
        da, db = tuple(a.device_configurations or ()), tuple(b.device_configurations or ())
        if len(da) != len(db):
            self.d(path, f"#node device configurations {len(da)} != {len(db)}")
            return
        for i, (x, y) in enumerate(zip(da, db)):
            p = f"{path}[{i}]"
            cx, cy = x.configuration, y.configuration
            if (cx is None) != (cy is None) or (cx is not None and (cx.name, cx.num_devices, tuple(cx.device_names)) !=
                                               (cy.name, cy.num_devices, tuple(cy.device_names))):
                self.d(p + ".configuration", f"{cx!r} != {cy!r}")
            elif cx is not None:
                # identity: the node must refer to the configuration object registered on its own model
                ia = next((j for j, c in enumerate(self.model_cfgs[0]) if c is cx), None)
                ib = next((j for j, c in enumerate(self.model_cfgs[1]) if c is cy), None)
                if ia != ib:
                    self.d(p + ".configuration", f"registered position on the model {ia} != {ib} (None = not the model's object)")
            if x.pipeline_stage != y.pipeline_stage:
                self.d(p + ".pipeline_stage", f"{x.pipeline_stage!r} != {y.pipeline_stage!r}")
            if len(x.sharding_specs) != len(y.sharding_specs):
                self.d(p, f"#sharding specs {len(x.sharding_specs)} != {len(y.sharding_specs)}")
            for j, (sx, sy) in enumerate(zip(x.sharding_specs, y.sharding_specs)):
                q = f"{p}.spec[{j}]"
                if sx.value is not None or sy.value is not None:
                    self.match(q + ".value", sx.value, sy.value)
                if tuple(sx.device) != tuple(sy.device):
                    self.d(q + ".device", f"{sx.device!r} != {sy.device!r}")
                if repr(sx.index_to_device_group_map) != repr(sy.index_to_device_group_map):
                    self.d(q + ".index_to_device_group_map", "differs")
                if repr(sx.sharded_dims) != repr(sy.sharded_dims):
                    self.d(q + ".sharded_dims", f"{sx.sharded_dims!r} != {sy.sharded_dims!r}")

    def opset_imports(self, path, a, b):
        """Exact equality of the two mappings (overridable: vfpy/c03_scopes.py judges the C03 reading)."""
        if dict(a) != dict(b):
            self.d(path, f"opset_imports {dict(a)} != {dict(b)}")

    def graph(self, path, a, b, top=True, function_body=False):
        if not function_body:  # FunctionProto has no field for the name of the body graph
            self.scalar(path + ".name", a.name, b.name)
        self.scalar(path + ".doc_string", a.doc_string, b.doc_string)
        self.mdict(path + ".metadata_props", a.metadata_props, b.metadata_props)
        if top:
            self.opset_imports(path, a.opset_imports, b.opset_imports)
        if len(a.inputs) != len(b.inputs):
            self.d(path, f"#inputs {len(a.inputs)} != {len(b.inputs)}")
        for i, (x, y) in enumerate(zip(a.inputs, b.inputs)):
            self.match(f"{path}.inputs[{i}]", x, y)
        ka, kb = list(a.initializers.keys()), list(b.initializers.keys())
        if sorted(ka) != sorted(kb):
            self.d(path, f"initializer names {ka} != {kb}")
        elif self.compare_initializer_order and ka != kb:
            self.d(path, f"initializer order {ka} != {kb}")
        for k in ka:
            if k in b.initializers:
                x, y = a.initializers[k], b.initializers[k]
                self.initializer_hint = (x, y)
                self.match(f"{path}.initializers[{k}]", x, y)
                self.initializer_hint = None
                self.tensor(f"{path}.initializers[{k}].const_value", x.const_value, y.const_value, compare_name=False)
        na, nb = list(a), list(b)
        if len(na) != len(nb):
            self.d(path, f"#nodes {len(na)} != {len(nb)}")
        for i, (x, y) in enumerate(zip(na, nb)):
            self.node(f"{path}.node[{i}]", x, y)
        if len(a.outputs) != len(b.outputs):
            self.d(path, f"#outputs {len(a.outputs)} != {len(b.outputs)}")
        for i, (x, y) in enumerate(zip(a.outputs, b.outputs)):
            self.match(f"{path}.outputs[{i}]", x, y)

    def function(self, path, a, b):
        self.scalar(path + ".name", a.name, b.name)
        self.scalar(path + ".domain", a.domain, b.domain)
        self.scalar(path + ".overload", a.overload, b.overload)
        ka, kb = list(a.attributes.keys()), list(b.attributes.keys())
        if ka != kb and sorted(ka) != sorted(kb):
            self.d(path, f"function attribute names {ka} != {kb}")
        for k in ka:
            if k in b.attributes:
                self.attr(f"{path}.attr[{k}]", a.attributes[k], b.attributes[k], declaration=True)
        self.graph(path + ".body", a.graph, b.graph, top=True, function_body=True)

    def model(self, a, b):
        self.compare_device_configurations = (a.ir_version or 0) >= 11
        self.model_cfgs = (tuple(a.device_configurations or ()), tuple(b.device_configurations or ()))
        self.scalar("model.ir_version", a.ir_version, b.ir_version, default=0)
        self.scalar("model.producer_name", a.producer_name, b.producer_name)
        self.scalar("model.producer_version", a.producer_version, b.producer_version)
        self.scalar("model.domain", a.domain, b.domain)
        self.scalar("model.model_version", a.model_version, b.model_version, default=0)
        self.scalar("model.doc_string", a.doc_string, b.doc_string)
        self.mdict("model.metadata_props", a.metadata_props, b.metadata_props)
        self.graph("graph", a.graph, b.graph, top=True)
        fa, fb = list(a.functions.keys()), list(b.functions.keys())
        if sorted(fa) != sorted(fb):
            self.d("model.functions", f"{fa} != {fb}")
        for k in fa:
            if k in b.functions:
                self.function(f"function[{k}]", a.functions[k], b.functions[k])
        if (a.ir_version or 0) >= 11:
            ca = [repr(c) for c in a.device_configurations]
            cb = [repr(c) for c in b.device_configurations]
            if ca != cb:
                self.d("model.device_configurations", f"{ca} != {cb}")
        return self.diffs


def _trim(outs):
    while outs and not outs[-1].name:
        outs.pop()
    return outs


def _feq(x, y):
    if isinstance(x, float) or isinstance(x, np.floating):
        if math.isnan(float(x)) and math.isnan(float(y)):
            return True
    return x == y


def compare_models(a: ir.Model, b: ir.Model, **kw) -> list[str]:
    return Iso(**kw).model(a, b)


def well_scoped(model: ir.Model) -> list[str]:
    """Problems that make name-based serialisation ill defined (harness precondition, not a verdict):
    a used value that is not defined in its graph or an enclosing graph; duplicate value names;
    a used value without a name."""
    problems: list[str] = []
    seen_graphs: set[int] = set()

    def walk(g, visible: set[int]):
        if id(g) in seen_graphs:
            problems.append("a graph object is attached more than once (or nested in itself)")
            return
        seen_graphs.add(id(g))
        own = {id(v) for v in g.inputs} | {id(v) for v in g.initializers.values()}
        for n in g:
            own |= {id(o) for o in n.outputs}
        vis = visible | own
        for n in g:
            for v in n.inputs:
                if v is not None and id(v) not in vis:
                    problems.append(f"node {n.name!r} uses value {v.name!r} that is not visible")
                if v is not None and not v.name:
                    problems.append("a used value has no name")
            for a in n.attributes.values():
                if isinstance(a, ir.Attr) and not a.is_ref():
                    if a.type == ir.AttributeType.GRAPH:
                        walk(a.value, vis)
                    elif a.type == ir.AttributeType.GRAPHS:
                        for sg in a.value:
                            walk(sg, vis)
        if any(not v.name for v in g.inputs):
            problems.append("a graph input has no name")
        ins = [id(v) for v in g.inputs]
        if len(ins) != len(set(ins)):
            problems.append("duplicate graph input (invalid ONNX)")
        for v in g.outputs:
            if id(v) not in vis:
                problems.append(f"graph output {v.name!r} is not visible in its graph")
            elif id(v) not in own:
                problems.append("outer-scope value returned directly as a nested graph output (rejected by the ONNX checker)")
            if not v.name:
                problems.append("a graph output has no name")

    walk(model.graph, set())
    for f in model.functions.values():
        walk(f.graph, set())
    return problems
