"""Canonical form of ONNX protobuf messages by *reflection* (shared by C02, C17, C03).

``canon(msg)`` walks **every field of every message** through the protobuf descriptors - nothing
is enumerated by hand, so a field nobody thought of (or one added by a newer onnx) is still
compared - and applies *only* the normalisations the C02 property statement documents:

  N1  the alias domain ``'ai.onnx'`` equals ``''`` in every string field called ``domain``;
  N7  an all-default ``ModelProto.graph`` (after N4) is the same as an absent one
  N2  ``opset_import``, ``value_info`` and ``metadata_props`` entries are compared as multisets
      (order is irrelevant, multiplicity is not: a duplicated entry is a difference);
  N3  value-info may be ADDED for initializers: a graph initializer that is not a graph input and
      has no value-info entry gets the implied entry ``{name, tensor_type{elem_type=data_type,
      shape=dims as dim_value}}`` - so the added entry must be the initializer's own type/shape;
  N4  value-info naming nothing in its graph may be DROPPED: a GraphProto keeps the entries naming
      an initializer or an output of one of its own nodes, a FunctionProto those naming a function
      input or an output of one of its own nodes.  (A GraphProto entry naming a graph input or graph
      output repeats a declaration that has its own ValueInfoProto; it is dropped here as well -
      ``gen_proto`` never emits one.)
  N5  trailing empty-string node outputs are trimmed;
  N6  unset == default for optional *scalars* (presence is kept for sub-messages - a present but
      empty ``shape`` means rank 0, an absent one unknown rank - and for members of a ``oneof``:
      ``dim_value: 0`` is not "no dimension");
  N7  NaN == NaN in float/double fields (the sign of zero and every other bit pattern is kept).

Everything else - names, order of nodes/inputs/outputs/initializers/functions/attributes/dims,
payload bytes, storage field used, doc strings, denotations ... - must be identical.

Canonical values are plain Python data: a message is a ``dict`` (``"__msg__"`` = message type
name, then the fields in descriptor order), a repeated field a ``tuple``, a multiset field a
``Multiset`` (a tuple subclass, sorted, remembering the key field used to pair entries up in
reports), scalars are ``int/str/bytes/bool/float`` with NaN replaced by ``NAN`` and -0.0 by
``NEG_ZERO``.  Two canonical values are equal (``==``) iff the protos are equal up to N1-N7.

``first_difference(a, b)`` / ``differences(a, b)`` take two canonical values (or two messages) and
return where they differ: a readable path (``graph.initializer[0].metadata_props{k}``), both values,
the message type owning the differing field and a class ``lost | added | duplicated | altered`` (read
as "what happened to ``a`` on the way to ``b``").  ``Difference.signature()`` is the mechanism-level
key ``'<MessageType>.<field>|<class>'`` (no indices, no names).

``canon(msg, lenient=True)`` additionally treats as multisets three string->string / keyed lists on
whose order the property statement is silent (``quantization_annotation`` by tensor name,
``quant_parameter_tensor_names`` and ``external_data`` by key).  Callers use it to tell "only the
order of such a list changed" (report-only) from a real difference.

The module never imports ``onnx_ir``.
"""

from __future__ import annotations

import math
from typing import Any, Iterator, NamedTuple

from google.protobuf.descriptor import FieldDescriptor as _FD
from google.protobuf.message import Message

__all__ = [
    "canon", "first_difference", "differences", "Difference", "Multiset", "NAN", "NEG_ZERO",
    "UNORDERED", "LENIENT_UNORDERED", "ALIAS_DOMAIN", "strip_indices", "brief",
]

NAN = "<nan>"
NEG_ZERO = "<-0.0>"
ALIAS_DOMAIN = "ai.onnx"

#: field name -> name of the sub-field that keys an entry (documented multisets, N2)
UNORDERED = {"opset_import": "domain", "value_info": "name", "metadata_props": "key"}
#: lists whose order the statement does not mention; multisets only with ``lenient=True``
LENIENT_UNORDERED = {
    "quantization_annotation": "tensor_name",
    "quant_parameter_tensor_names": "key",
    "external_data": "key",
}

_FLOAT_TYPES = (_FD.TYPE_FLOAT, _FD.TYPE_DOUBLE)


class Multiset(tuple):
    """Sorted tuple of canonical entries; ``key`` names the field that identifies an entry."""

    key: str = ""

    def __new__(cls, items, key: str = ""):
        self = super().__new__(cls, sorted(items, key=_order))
        self.key = key
        return self


def _order(x: Any) -> str:
    """Total, deterministic order over canonical values (dicts keep descriptor order)."""
    return repr(x)


# ---- descriptor cache ---------------------------------------------------------------------------

_FIELDS: dict[str, list[tuple]] = {}


def _is_repeated(f) -> bool:
    rep = getattr(f, "is_repeated", None)
    if rep is None:  # older protobuf
        return f.label == _FD.LABEL_REPEATED
    return rep() if callable(rep) else bool(rep)


def _fields(msg: Message) -> list[tuple]:
    desc = msg.DESCRIPTOR
    info = _FIELDS.get(desc.full_name)
    if info is None:
        info = []
        for f in desc.fields:
            info.append(
                (
                    f.name,
                    _is_repeated(f),
                    f.message_type is not None,
                    f.type in _FLOAT_TYPES,
                    f.containing_oneof is not None,
                    bool(f.has_presence),
                    None if (f.message_type is not None or _is_repeated(f)) else f.default_value,
                    f.type == _FD.TYPE_STRING,
                )
            )
        _FIELDS[desc.full_name] = info
    return info


def _scalar(v: Any, is_float: bool) -> Any:
    if is_float:
        if v != v:
            return NAN
        if v == 0.0 and math.copysign(1.0, v) < 0:
            return NEG_ZERO
    return v


# ---- canonical form -----------------------------------------------------------------------------


def canon(msg: Any, *, lenient: bool = False) -> Any:
    """Canonical form of a protobuf message (or of a list/tuple of messages)."""
    if isinstance(msg, (list, tuple)):
        return tuple(canon(m, lenient=lenient) for m in msg)
    if not isinstance(msg, Message):
        raise TypeError(f"canon() takes protobuf messages, got {type(msg)}")
    unordered = dict(UNORDERED)
    if lenient:
        unordered.update(LENIENT_UNORDERED)
    return _canon(msg, unordered)


def _canon(msg: Message, unordered: dict[str, str]) -> dict:
    tname = msg.DESCRIPTOR.name
    out: dict[str, Any] = {"__msg__": tname}
    for name, repeated, is_msg, is_float, in_oneof, has_presence, default, is_str in _fields(msg):
        if repeated:
            values = getattr(msg, name)
            if len(values) == 0:
                continue
            if is_msg:
                items = [_canon(v, unordered) for v in values]
                if name == "value_info":
                    items = _normalise_value_info(msg, tname, items)
                    if not items:
                        continue
                if name in unordered:
                    out[name] = Multiset(items, unordered[name])
                else:
                    out[name] = tuple(items)
            else:
                items = [_scalar(v, is_float) for v in values]
                if name == "output" and tname == "NodeProto":  # N5
                    while items and items[-1] == "":
                        items.pop()
                    if not items:
                        continue
                out[name] = tuple(items)
        elif is_msg:
            if msg.HasField(name):  # N6: presence of sub-messages is information
                sub = _canon(getattr(msg, name), unordered)
                if tname == "ModelProto" and name == "graph" and len(sub) == 1:
                    # N7: a model's graph that is empty after the normalisations above (e.g. it held only
                    # value-info naming nothing in it, N4) is the same as no graph field: an IR model always
                    # has a graph, and an empty one is serialised without touching the field
                    continue
                out[name] = sub
        else:
            if in_oneof:
                if msg.HasField(name):  # N6: which member of a oneof is set is information
                    out[name] = _scalar(getattr(msg, name), is_float)
                continue
            v = getattr(msg, name)
            if is_str and name == "domain" and v == ALIAS_DOMAIN:  # N1
                v = ""
            if v == default and not (is_float and _scalar(v, True) != v):
                continue  # N6: unset == default
            out[name] = _scalar(v, is_float)
    if "value_info" not in out and tname == "GraphProto":
        # N3 also when the original has no value_info at all
        items = _normalise_value_info(msg, tname, [])
        if items:
            out["value_info"] = Multiset(items, unordered["value_info"])
            out = _reorder(out, msg)
    return out


def _reorder(out: dict, msg: Message) -> dict:
    order = {"__msg__": -1}
    order.update({f[0]: i for i, f in enumerate(_fields(msg))})
    return dict(sorted(out.items(), key=lambda kv: order[kv[0]]))


def _normalise_value_info(msg: Message, tname: str, items: list[dict]) -> list[dict]:
    """N3 + N4 for the ``value_info`` list of a GraphProto / FunctionProto."""
    if tname == "GraphProto":
        node_outputs = {o for n in msg.node for o in n.output if o}
        declared_io = {v.name for v in msg.input} | {v.name for v in msg.output}
        initializers = {t.name: t for t in msg.initializer if t.name}
        keep = (node_outputs | set(initializers)) - declared_io
        items = [it for it in items if it.get("name", "") in keep]
        present = {it.get("name", "") for it in items}
        for name, tensor in initializers.items():
            if name in keep and name not in present:
                items.append(_implied_value_info(name, tensor))
        return items
    if tname == "FunctionProto":
        keep = {o for n in msg.node for o in n.output if o} | set(msg.input)
        return [it for it in items if it.get("name", "") in keep]
    return items


def _implied_value_info(name: str, tensor: Message) -> dict:
    tensor_type: dict[str, Any] = {"__msg__": "Tensor"}
    if tensor.data_type != 0:
        tensor_type["elem_type"] = tensor.data_type
    shape: dict[str, Any] = {"__msg__": "TensorShapeProto"}
    if len(tensor.dims):
        shape["dim"] = tuple({"__msg__": "Dimension", "dim_value": d} for d in tensor.dims)
    tensor_type["shape"] = shape
    return {
        "__msg__": "ValueInfoProto",
        "name": name,
        "type": {"__msg__": "TypeProto", "tensor_type": tensor_type},
    }


# ---- differences --------------------------------------------------------------------------------


class Difference(NamedTuple):
    path: str    # e.g. "graph.initializer[0].metadata_props{k}"
    a: Any       # canonical value on the first side (None = absent)
    b: Any       # canonical value on the second side (None = absent)
    owner: str   # message type owning the differing field, e.g. "TensorProto"
    field: str   # field name, e.g. "metadata_props"
    kind: str    # lost | added | duplicated | altered   (a -> b)

    def signature(self) -> str:
        return f"{self.owner}.{self.field}|{self.kind}"

    def triple(self) -> tuple[str, Any, Any]:
        return (self.path, self.a, self.b)


def first_difference(a: Any, b: Any) -> tuple[str, Any, Any] | None:
    """``(path, value_in_a, value_in_b)`` of the first differing field, or ``None`` if equal.

    ``a`` and ``b`` are canonical values or protobuf messages (canonicalised with the defaults).
    """
    for d in differences(a, b, limit=1):
        return d.triple()
    return None


def differences(a: Any, b: Any, limit: int = 16) -> list[Difference]:
    """Up to ``limit`` differences in document order (one per differing field / entry)."""
    if isinstance(a, Message):
        a = canon(a)
    if isinstance(b, Message):
        b = canon(b)
    out: list[Difference] = []
    if a == b:
        return out
    for d in _diff(a, b, "", "<root>", "<root>"):
        out.append(d)
        if len(out) >= limit:
            break
    return out


def _join(path: str, name: str) -> str:
    return f"{path}.{name}" if path else name


def _diff(a: Any, b: Any, path: str, owner: str, field: str) -> Iterator[Difference]:
    if a == b:
        return
    if isinstance(a, dict) and isinstance(b, dict):
        if a.get("__msg__") != b.get("__msg__"):
            yield Difference(path, a, b, owner, field, "altered")
            return
        tname = a.get("__msg__", "?")
        keys = [k for k in a if k != "__msg__"] + [k for k in b if k not in a and k != "__msg__"]
        for k in keys:
            if k not in b:
                yield Difference(_join(path, k), a[k], None, tname, k, "lost")
            elif k not in a:
                yield Difference(_join(path, k), None, b[k], tname, k, "added")
            else:
                yield from _diff(a[k], b[k], _join(path, k), tname, k)
        return
    if isinstance(a, Multiset) and isinstance(b, Multiset):
        yield from _diff_multiset(a, b, path, owner, field)
        return
    if isinstance(a, tuple) and isinstance(b, tuple) and not isinstance(a, Multiset) and not isinstance(b, Multiset):
        if len(a) != len(b):
            # elements can no longer be paired up reliably: report the list as a whole
            n = min(len(a), len(b))
            if len(b) > len(a):
                extra = [x for x in b if x not in a] or list(b[n:])
                kind = "duplicated" if len(a) and all(x in a for x in extra) else "added"
            else:
                kind = "lost"
            yield Difference(path, a, b, owner, field, kind)
            return
        for i in range(len(a)):
            if a[i] != b[i]:
                yield from _diff(a[i], b[i], f"{path}[{i}]", owner, field)
        return
    yield Difference(path, a, b, owner, field, "altered")


def _entry_key(entry: Any, key: str) -> Any:
    if isinstance(entry, dict):
        return entry.get(key, "")
    return repr(entry)


def _diff_multiset(a: Multiset, b: Multiset, path: str, owner: str, field: str) -> Iterator[Difference]:
    key = a.key or b.key
    groups: dict[Any, tuple[list, list]] = {}
    for e in a:
        groups.setdefault(_entry_key(e, key), ([], []))[0].append(e)
    for e in b:
        groups.setdefault(_entry_key(e, key), ([], []))[1].append(e)
    for k, (la, lb) in groups.items():
        if la == lb:
            continue
        p = f"{path}{{{k}}}"
        if len(la) == len(lb):
            for x, y in zip(la, lb):
                yield from _diff(x, y, p, owner, field)
        elif not la:
            yield Difference(p, None, tuple(lb), owner, field, "added")
        elif not lb:
            yield Difference(p, tuple(la), None, owner, field, "lost")
        elif len(lb) > len(la):
            yield Difference(p, tuple(la), tuple(lb), owner, field, "duplicated")
        else:
            yield Difference(p, tuple(la), tuple(lb), owner, field, "lost")


# ---- presentation -------------------------------------------------------------------------------


def strip_indices(path: str) -> str:
    """``graph.node[3].attribute[0].t.metadata_props{k}`` -> ``graph.node.attribute.t.metadata_props``."""
    out = []
    depth = 0
    for ch in path:
        if ch in "[{":
            depth += 1
        elif ch in "]}":
            depth -= 1
        elif depth == 0:
            out.append(ch)
    return "".join(out)


def brief(value: Any, limit: int = 400) -> str:
    """Short printable rendering of a canonical value for violation messages."""
    text = _brief(value)
    return text if len(text) <= limit else text[: limit - 3] + "..."


def _brief(v: Any) -> str:
    if v is None:
        return "<absent>"
    if isinstance(v, dict):
        inner = ", ".join(f"{k}={_brief(x)}" for k, x in v.items() if k != "__msg__")
        return f"{v.get('__msg__', '')}({inner})"
    if isinstance(v, tuple):
        return "[" + ", ".join(_brief(x) for x in v) + "]"
    return repr(v)
