"""C18 oracle: brute-force scope analysis and backward closure over IR graphs.

Everything here reads the IR through public accessors only (``graph.inputs/outputs/initializers``,
iteration over nodes, ``node.inputs/outputs/attributes``, ``attr.type/value/is_ref``) and never calls
``onnx_ir.convenience.extract``, ``onnx_ir.analysis.analyze_implicit_usage``, the cloner,
``RecursiveGraphIterator``, ``Value.producer()``, ``Value.graph`` or ``Value.is_initializer()``:
producers, definition sites and initializer-ness are recomputed from the node lists and the
containers, and captures are computed as a *set difference* (used in the subtree minus defined in
the subtree), which is a different mechanism from the graph-stack walk of the code under test.
"""

from __future__ import annotations

from collections import defaultdict
from typing import Any, Iterable

import onnx_ir as ir

_GRAPH = ir.AttributeType.GRAPH
_GRAPHS = ir.AttributeType.GRAPHS


def child_graphs(node: ir.Node) -> list[tuple[str, str, int, Any]]:
    """(attribute name, 'GRAPH'|'GRAPHS', index within the attribute, graph) of every non-reference graph
    attribute of ``node`` in attribute order."""
    out = []
    for name, attr in node.attributes.items():
        if attr.is_ref():
            continue
        if attr.type == _GRAPH:
            out.append((name, "GRAPH", 0, attr.value))
        elif attr.type == _GRAPHS:
            for j, g in enumerate(attr.value):
                out.append((name, "GRAPHS", j, g))
    return out


def initializers_of(graph_like) -> list[ir.Value]:
    if isinstance(graph_like, ir.Function):
        return list(graph_like.graph.initializers.values())
    return list(graph_like.initializers.values())


class Scope:
    """One graph of a scope tree (the root may be a Graph, a Function or a GraphView)."""

    __slots__ = ("graph", "parent", "depth", "via", "nodes", "defined", "used", "children", "children_of",
                 "sub_defined", "sub_used", "captured", "sorted_ok", "outer_outputs")

    def __init__(self, graph, parent: "Scope | None", via):
        self.graph = graph
        self.parent = parent
        self.depth = 0 if parent is None else parent.depth + 1
        self.via = via  # (node index in the parent's node list, attribute name, kind, index within attribute)
        self.nodes = list(graph)
        self.defined: dict[int, ir.Value] = {}
        for v in list(graph.inputs) + initializers_of(graph):
            self.defined[id(v)] = v
        for n in self.nodes:
            for o in n.outputs:
                self.defined[id(o)] = o
        self.used: dict[int, ir.Value] = {}
        for n in self.nodes:
            for v in n.inputs:
                if v is not None:
                    self.used[id(v)] = v
        # graph outputs naming a value that is not defined in the graph itself (invalid ONNX; reported, never judged)
        self.outer_outputs = [v for v in graph.outputs if id(v) not in self.defined]
        self.children: list[Scope] = []
        self.children_of: dict[int, list[Scope]] = {}
        for i, n in enumerate(self.nodes):
            for name, kind, j, g in child_graphs(n):
                child = Scope(g, self, (i, name, kind, j))
                self.children.append(child)
                self.children_of.setdefault(id(n), []).append(child)
        # subtree summaries
        self.sub_defined: set[int] = set(self.defined)
        # id -> (value, depth of the shallowest use below this scope (0 = in this graph), attribute kinds on the path)
        self.sub_used: dict[int, tuple[ir.Value, int, frozenset]] = {k: (v, 0, frozenset()) for k, v in self.used.items()}
        for c in self.children:
            self.sub_defined |= c.sub_defined
            for k, (v, d, kinds) in c.sub_used.items():
                cand = (v, d + 1, kinds | {c.via[2]})
                old = self.sub_used.get(k)
                if old is None or cand[1] < old[1]:
                    self.sub_used[k] = cand
        self.captured: dict[int, tuple[ir.Value, int, frozenset]] = {
            k: t for k, t in self.sub_used.items() if k not in self.sub_defined
        }
        # topologically sorted (every value produced by a node of this graph is produced before it is used
        # in this graph or captured below the using node), recursively
        pos = {}
        for i, n in enumerate(self.nodes):
            for o in n.outputs:
                pos[id(o)] = i
        ok = all(c.sorted_ok for c in self.children)
        if ok:
            for i, n in enumerate(self.nodes):
                deps = [id(v) for v in n.inputs if v is not None]
                for c in self.children_of.get(id(n), ()):
                    deps.extend(c.captured)
                if any(pos.get(d, -1) >= i for d in deps):
                    ok = False
                    break
        self.sorted_ok = ok

    def walk(self) -> Iterable["Scope"]:
        yield self
        for c in self.children:
            yield from c.walk()

    def path(self) -> list:
        """JSON-able locator of this scope below its root."""
        out = []
        s = self
        while s.parent is not None:
            out.append([s.via[0], s.via[1], s.via[3]])
            s = s.parent
        return out[::-1]


def brute_force_implicit_usage(root) -> tuple[dict[int, tuple[Any, dict[int, tuple[ir.Value, int, frozenset]]]], Scope]:
    """{id(nested graph): (graph, {id(value): (value, shallowest use depth below the graph, attr kinds)})} for
    every graph nested at any depth below ``root`` (root excluded), plus the scope tree."""
    tree = Scope(root, None, None)
    out = {}
    for s in tree.walk():
        if s.parent is None:
            continue
        out[id(s.graph)] = (s.graph, s.captured, s)
    return out, tree


class GraphLike:
    """A graph-like under extraction with everything the oracle needs, recomputed from the containers."""

    def __init__(self, obj, kind: str, ref: list, *, enclosing_defined: set[int] | None = None,
                 enclosing_inits: dict[int, ir.Value] | None = None):
        self.obj = obj
        self.kind = kind  # 'graph' | 'function' | 'nested' | 'view' | 'subview'
        self.ref = ref
        self.scope = Scope(obj, None, None)
        self.nodes = self.scope.nodes
        self.index = {id(n): i for i, n in enumerate(self.nodes)}
        self.inputs = list(obj.inputs)
        self.outputs = list(obj.outputs)
        self.inits = initializers_of(obj)
        self.init_ids = {id(v) for v in self.inits}
        self.input_ids = {id(v) for v in self.inputs}
        self.prod: dict[int, ir.Node] = {}
        for n in self.nodes:
            for o in n.outputs:
                self.prod[id(o)] = n
        # values of the graph-like's own scope that can be named in a cut
        self.values: list[ir.Value] = []
        seen: set[int] = set()
        for v in self.inputs + self.inits + [o for n in self.nodes for o in n.outputs]:
            if id(v) in seen or not v.name:
                continue
            seen.add(id(v))
            self.values.append(v)
        self.by_name: dict[str, ir.Value] = {}
        self.ambiguous_names: set[str] = set()
        for v in self.values:
            if v.name in self.by_name:
                self.ambiguous_names.add(v.name)
            else:
                self.by_name[v.name] = v
        self.top_defined = set(self.scope.defined)
        self._deps: dict[int, list[tuple[ir.Value, str]]] = {}
        # does the graph-like use values that it does not define (captures of an enclosing scope / dangling)?
        self.free = {k: t for k, t in self.scope.captured.items()}
        self.enclosing_defined = enclosing_defined or set()
        # Graph objects that occur more than once in the scope tree (one Graph referenced by several attributes)
        occ: dict[int, int] = defaultdict(int)
        for sc in self.scope.walk():
            occ[id(sc.graph)] += 1
        self.shared_graph_ids = {k for k, v in occ.items() if v > 1}
        # initializers (by container) of the graphs that enclose a nested graph-like: a region that uses one of
        # them needs that initializer like one of its own
        self.enclosing_inits: dict[int, ir.Value] = dict(enclosing_inits or {})

    def deps(self, node: ir.Node) -> list[tuple[ir.Value, str]]:
        """(value, reason) the node depends on: direct inputs and values captured by its nested graphs at any
        depth (reason 'capture:<depth>:<GRAPH|GRAPHS|GRAPH+GRAPHS>')."""
        got = self._deps.get(id(node))
        if got is None:
            got = [(v, "direct") for v in node.inputs if v is not None]
            for c in self.scope.children_of.get(id(node), ()):
                for _k, (v, d, kinds) in c.captured.items():
                    kk = "+".join(sorted(kinds | {c.via[2]}))
                    got.append((v, f"capture:{d + 1}:{kk}"))
            self._deps[id(node)] = got
        return got

    def nested_sorted(self, node: ir.Node) -> bool:
        return all(c.sorted_ok for c in self.scope.children_of.get(id(node), ()))


class Closure:
    __slots__ = ("nodes", "why", "inits", "init_why", "uncovered", "unc_why", "unc_kind", "sorted_ok", "seen", "outer_inits")

    def __init__(self):
        self.nodes: list[ir.Node] = []  # in ORIGINAL order
        self.why: dict[int, set[str]] = defaultdict(set)
        self.inits: dict[int, ir.Value] = {}
        self.init_why: dict[int, set[str]] = defaultdict(set)
        self.uncovered: dict[int, ir.Value] = {}
        self.unc_why: dict[int, set[str]] = defaultdict(set)
        self.unc_kind: dict[int, str] = {}
        self.sorted_ok = True
        self.seen: set[int] = set()
        self.outer_inits: set[int] = set()  # ids of needed initializers that are declared in an enclosing graph

    @property
    def covered(self) -> bool:
        return not self.uncovered


def closure(gl: GraphLike, cut_inputs: list[ir.Value], cut_outputs: list[ir.Value]) -> Closure:
    """Backward closure from the outputs, stopping at the given inputs, over direct inputs and values captured
    by nested graphs at any depth."""
    c = Closure()
    in_ids = {id(v) for v in cut_inputs}
    needed: dict[int, ir.Node] = {}
    stack: list[tuple[ir.Value, str]] = [(v, "output") for v in cut_outputs]
    while stack:
        v, reason = stack.pop()
        vid = id(v)
        if vid in in_ids:
            continue
        p = gl.prod.get(vid)
        if p is not None:
            c.why[id(p)].add(reason)
        elif vid in gl.init_ids:
            c.inits[vid] = v
            c.init_why[vid].add(reason)
        elif vid in gl.enclosing_inits and gl.kind == "nested":
            c.inits[vid] = v
            c.init_why[vid].add(reason)
            c.outer_inits.add(vid)
        else:
            c.uncovered[vid] = v
            c.unc_why[vid].add(reason)
            if vid in gl.input_ids:
                c.unc_kind[vid] = "graph-input"
            elif gl.kind in ("view", "subview"):
                c.unc_kind[vid] = "not-defined-in-view"
            elif vid in gl.enclosing_defined:
                c.unc_kind[vid] = "enclosing-scope"
            else:
                c.unc_kind[vid] = "dangling"
        if vid in c.seen:
            continue
        c.seen.add(vid)
        if p is not None and id(p) not in needed:
            needed[id(p)] = p
            stack.extend(gl.deps(p))
    c.nodes = [n for n in gl.nodes if id(n) in needed]
    # is the region, in original order, executable/cloneable front to back?
    pos = gl.index
    for n in c.nodes:
        if not gl.nested_sorted(n):
            c.sorted_ok = False
            break
        i = pos[id(n)]
        for v, _r in gl.deps(n):
            p = gl.prod.get(id(v))
            if p is not None and id(v) not in in_ids and pos[id(p)] >= i:
                c.sorted_ok = False
                break
        if not c.sorted_ok:
            break
    return c


# ---- identity sets ------------------------------------------------------------------------------
def collect_objects(roots: Iterable, follow_links: bool = True) -> dict[int, tuple[str, Any]]:
    """{id(obj): (kind, obj)} of every Graph/Function-graph/Node/Value reachable from the roots through public
    accessors: containers, node inputs/outputs, graph attributes at any depth and - with ``follow_links`` -
    ``value.producer()``, ``value.uses()``, ``value.graph`` and ``node.graph``."""
    found: dict[int, tuple[str, Any]] = {}
    stack = list(roots)
    while stack:
        o = stack.pop()
        if o is None or id(o) in found:
            continue
        if isinstance(o, ir.Function):
            found[id(o)] = ("Function", o)
            stack.append(o.graph)
        elif isinstance(o, (ir.Graph, ir.GraphView)):
            found[id(o)] = ("Graph", o)
            stack.extend(o.inputs)
            stack.extend(o.outputs)
            stack.extend(o.initializers.values())
            stack.extend(list(o))
        elif isinstance(o, ir.Node):
            found[id(o)] = ("Node", o)
            stack.extend(v for v in o.inputs if v is not None)
            stack.extend(o.outputs)
            for _n, _k, _j, g in child_graphs(o):
                stack.append(g)
            if follow_links:
                stack.append(o.graph)
        elif isinstance(o, ir.Value):
            found[id(o)] = ("Value", o)
            if follow_links:
                stack.append(o.producer())
                stack.append(o.graph)
                for use in o.uses():
                    stack.append(use[0])
    return found
