"""C15 oracles for NameFixPass (workload B) and convenience.rename_values (workload C).

Everything is read through public accessors of the real objects after the real call; the
expected properties are computed by this module's own traversal (vfpy.c15_models.walk_tree),
never by onnx_ir.traversal or by the pass.
"""

from __future__ import annotations

from collections import Counter

import onnx_ir as ir
from onnx_ir import convenience as irc
from onnx_ir.passes.common import naming

from vfpy import histories, invariants, snapshot
from vfpy.c15_models import build, role, trees
from vfpy.world import World


class FixedGenerator:
    """A custom NameGenerator (public customisation point) that prefers one constant name."""

    def generate_node_name(self, node):
        return "n"

    def generate_value_name(self, value):
        return "x"


# ---- name-free view of a snapshot --------------------------------------------------------------------
def strip_names(snap):
    """The snapshot restricted to non-name fields.  Dropped: Value.name, Node.name, Graph.name, the
    name of a value's backing tensor (documented to follow the value's name) and initializer keys;
    initializer ORDER is kept apart (re-keying moves an entry to the end of the mapping)."""
    out, order = {}, {}
    for label, d in snap.items():
        if not isinstance(d, dict):
            out[label] = d
            continue
        e = dict(d)
        k = label[0]
        if k in "vn" and "name" in e:
            e.pop("name")
        if k == "v" and isinstance(e.get("const"), tuple) and len(e["const"]) >= 4:
            c = e["const"]
            e["const"] = c[:3] + c[4:]
        if k == "g" and "initializers" in e:
            e.pop("name", None)
            labs = tuple(lab for _, lab in e["initializers"])
            order[label] = labs
            e["initializers"] = tuple(sorted(labs))
        out[label] = e
    return out, order


def world_of(b):
    w = World()
    w.adopt_model(b.model)
    for vid in b.free:
        w.add_value(b.values[vid])
    w.discover()
    return w


def naming_frames(exc):
    """innermost-first function names of passes/common/naming.py on the traceback."""
    out = []
    tb = exc.__traceback__
    while tb is not None:
        code = tb.tb_frame.f_code
        if code.co_filename.replace("\\", "/").endswith("passes/common/naming.py"):
            out.append(code.co_name)
        tb = tb.tb_next
    return out[::-1]


# =============================================================================================
# B: NameFixPass
# =============================================================================================
def record_names(model):
    """Per tree: names of every referenced value / node before the pass, with multiplicities."""
    rec = []
    for tname, scopes in trees(model):
        vals, nodes = {}, {}
        for sc in scopes:
            for v in sc.referenced:
                vals[id(v)] = (v, v.name)
            for n in sc.nodes:
                nodes[id(n)] = (n, n.name)
        rec.append((tname, vals, nodes,
                    Counter(nm for _, nm in vals.values()), Counter(nm for _, nm in nodes.values())))
    return rec


def judge_namefix(items, custom_gen=False, ctx=None):
    """Build the model, run the pass, return (findings, info).  findings: list of (signature, message)."""
    def count(k, n=1):
        if ctx is not None:
            ctx.count(k, n)

    b = build(items)
    model = b.model
    info = {"skipped": False}
    pre_inv = invariants.check_model(model)
    if pre_inv:
        count("B_precondition_not_invariant_clean")
        info["skipped"] = True
        info["pre_inv"] = pre_inv[:3]
        return [], info
    w = world_of(b)
    s0 = snapshot.snapshot(w, identities=True, name_authority=False)
    before = record_names(model)
    info["missing_before"] = sum(1 for _, vals, nodes, _, _ in before
                                 for _, nm in list(vals.values()) + list(nodes.values()) if not nm)
    info["dups_before"] = sum(1 for _, _, _, cv, cn in before for c in (cv, cn) for nm, k in c.items() if nm and k > 1)
    info["scopes"] = sum(len(sc) for _, sc in trees(model))
    p = naming.NameFixPass(name_generator=FixedGenerator()) if custom_gen else naming.NameFixPass()
    try:
        result = p(model)
    except Exception as e:  # noqa: BLE001 - the pass has no documented failure on a consistent model
        count("B_pass_raised")
        count("B_exc:" + type(e).__name__)
        frames = naming_frames(e)
        inner = frames[0] if frames else "?"
        outer = "enter_graph" if "enter_graph" in frames else "node-loop"
        sig = f"B0:pass-raised|{type(e).__name__}@{histories.raise_site(e)}|in={inner}<{outer}"
        cause = e.__cause__ or e
        return [(sig, f"NameFixPass raised on an invariant-clean model: {type(cause).__name__}: {str(cause)[:300]}")], info
    count("B_pass_returned")
    info["modified"] = bool(result.modified)
    findings = []
    w.discover()
    s1 = snapshot.snapshot(w, identities=True, name_authority=False)

    all_trees = trees(model)
    # B1 empty names
    for tname, scopes in all_trees:
        for sc in scopes:
            for n in sc.nodes:
                count("B_nodes_checked")
                if not n.name:
                    findings.append(("B1:empty-name|node", f"{sc.path}: node {n.op_type} has name {n.name!r}"))
            for v in sc.referenced:
                count("B_values_checked")
                if not v.name:
                    findings.append((f"B1:empty-name|value|{role(v)}", f"{sc.path}: {role(v)} value has name {v.name!r}"))
    # B2 value names unique within a graph; B3 different from visible enclosing-scope values
    for tname, scopes in all_trees:
        for sc in scopes:
            byname = {}
            for v in sc.own:
                byname.setdefault(v.name, []).append(v)
            for nm, vs in byname.items():
                if len(vs) > 1:
                    roles = "+".join(sorted({role(v) for v in vs}))
                    findings.append((f"B2:duplicate-value-name-in-graph|{roles}", f"{sc.path}: {len(vs)} values named {nm!r} ({roles})"))
            count("B_visible_pairs_checked", len(sc.own) * len(sc.visible))
            outer = {}
            for u in sc.visible:
                outer.setdefault(u.name, []).append(u)
            for v in sc.own:
                for u in outer.get(v.name, ()):
                    if u is not v:
                        findings.append((f"B3:value-name-equals-visible-outer-value|inner={role(v)}|outer={role(u)}",
                                         f"{sc.path}: {role(v)} {v.name!r} equals a visible {role(u)} of an enclosing graph"))
            # B4 node names unique within a graph
            c = Counter(n.name for n in sc.nodes)
            for nm, k in c.items():
                if k > 1:
                    findings.append(("B4:duplicate-node-name-in-graph", f"{sc.path}: {k} nodes named {nm!r}"))
            # B5 initializers keyed by their names
            for k, v in sc.graph.initializers.items():
                count("B_initializer_keys_checked")
                if k != v.name:
                    findings.append(("B5:initializer-key-not-name", f"{sc.path}: key {k!r} holds value named {v.name!r}"))
    # B6 nothing but names changed
    a, oa = strip_names(s0)
    c, oc = strip_names(s1)
    for label, field, x, y in snapshot.diff(a, c):
        kind = {"v": "value", "n": "node", "g": "graph", "f": "function", "m": "model"}.get(label[0], "obj")
        findings.append((f"B6:non-name-change|{kind}.{field}", f"{label}.{field}: {x!r} -> {y!r}"))
    if oa != oc:
        count("B_report_only_initializer_order_changed")
    for clause, msg in invariants.check_world(w):
        findings.append((f"B6:invariant-broken|{clause}", msg))
    # B7 names that were unique in the whole tree are kept
    for tname, vals, nodes, cv, cn in before:
        for ns, objs, cnt in (("value", vals, cv), ("node", nodes, cn)):
            for oid, (obj, nm) in objs.items():
                if not nm or cnt[nm] != 1:
                    continue
                count("B_unique_names_checked")
                if obj.name != nm:
                    takers = [o for o, onm in objs.values() if o is not obj and o.name == nm and onm != nm]
                    cause = "taken-by-fresh-name" if takers else "no-taker"
                    how = ""
                    if takers:
                        t, tnm = next((o, onm) for o, onm in objs.values() if o is takers[0])
                        how = f"; {tnm!r} was renamed to {nm!r} first"
                    findings.append((f"B7:unique-name-not-kept|{ns}|{cause}",
                                     f"{tname}: {ns} name {nm!r} was unique in the tree but became {obj.name!r}{how}"))
    return findings, info


# =============================================================================================
# C: convenience.rename_values
# =============================================================================================
def gen_assignment(rng, b):
    """Pairs [vid, name] (name may be None for the bad-type class) and the list of classes drawn."""
    vids = sorted(b.values)
    vals = b.values
    inits = [i for i in vids if vals[i].is_initializer()]
    others = [i for i in vids if not vals[i].is_initializer()]
    k = rng.randint(1, 6)
    chosen = []
    for _ in range(k):
        pool = inits if (inits and rng.random() < 0.6) else (others or inits)
        cand = [i for i in pool if i not in chosen]
        if cand:
            chosen.append(rng.choice(cand))
    if not chosen:
        return [], ["empty"]
    names = [vals[i].name if isinstance(vals[i].name, str) else f"r{j}" for j, i in enumerate(chosen)]
    classes = []
    r = rng.random()
    if r < 0.3 and len(chosen) >= 2:
        targets = names[1:] + names[:1]
        classes.append("cycle" if len(chosen) > 2 else "swap")
    elif r < 0.6 and len(chosen) >= 2:
        targets = list(names)
        rng.shuffle(targets)
        classes.append("permutation")
    elif r < 0.8:
        targets = [f"r{rng.randrange(4)}" if rng.random() < 0.6 else n for n in names]
        classes.append("fresh")
    else:
        targets = [rng.choice(["x", "y", "w", "x_1", "w_1", "r0"]) for _ in names]
        classes.append("random")
    pairs = [[i, t] for i, t in zip(chosen, targets)]
    if any(a == bb for a, bb in zip(names, targets)):
        classes.append("fixed-point")
    # hostile additions
    r = rng.random()
    graph_of = {i: vals[i].graph for i in inits}
    if r < 0.12:
        ci = [i for i in chosen if i in graph_of]
        if ci:
            i = rng.choice(ci)
            ext = [vals[j].name for j in inits if j not in chosen and graph_of[j] is graph_of[i]]
            if ext:
                for p in pairs:
                    if p[0] == i:
                        p[1] = rng.choice(ext)
                classes.append("conflict-with-unrenamed-initializer")
    elif r < 0.22:
        ci = [i for i in chosen if i in graph_of]
        same = [(x, y) for x in ci for y in ci if x < y and graph_of[x] is graph_of[y]]
        if same:
            x, y = rng.choice(same)
            t = next(p[1] for p in pairs if p[0] == x)
            for p in pairs:
                if p[0] == y:
                    p[1] = t
            classes.append("two-initializers-one-target")
    elif r < 0.30:
        p = rng.choice(pairs)
        pairs.insert(rng.randrange(len(pairs) + 1), [p[0], p[1]])
        classes.append("duplicate-argument-same-name")
    elif r < 0.38:
        p = rng.choice(pairs)
        pairs.insert(rng.randrange(len(pairs) + 1), [p[0], p[1] + "_other"])
        classes.append("duplicate-argument-conflicting")
    elif r < 0.44:
        rng.choice(pairs)[1] = ""
        classes.append("empty-target")
    elif r < 0.48:
        rng.choice(pairs)[1] = None
        classes.append("non-string-target")
    elif r < 0.52:
        classes.append("length-mismatch")
    if len({id(graph_of[i]) for i in chosen if i in graph_of}) >= 2:
        classes.append("initializers-in-several-graphs")
    return pairs, classes


def judge_rename(items, pairs, length_mismatch=False, ctx=None):
    def count(k, n=1):
        if ctx is not None:
            ctx.count(k, n)

    b = build(items)
    pairs = [p for p in pairs if p[0] in b.values]
    info = {"skipped": False}
    if not pairs:
        info["skipped"] = True
        return [], info
    if invariants.check_model(b.model):
        count("C_precondition_not_invariant_clean")
        info["skipped"] = True
        return [], info
    w = world_of(b)
    values = [b.values[i] for i, _ in pairs]
    names = [n for _, n in pairs]
    if length_mismatch:
        names = names[:-1]
    graphs = list(w.graphs)
    init_before = {id(g): {id(v) for v in g.initializers.values()} for g in graphs}
    was_init = {id(v): v.graph for v in w.values if v.is_initializer()}
    names_before = {id(v): v.name for v in w.values}
    s0 = snapshot.snapshot(w, identities=True, name_authority=True)
    try:
        irc.rename_values(values, names)
        exc = None
    except Exception as e:  # noqa: BLE001 - the statement only says "or not at all"
        exc = e
    s1 = snapshot.snapshot(w, identities=True, name_authority=True)
    findings = []
    info["n_init"] = sum(1 for v in values if id(v) in was_init)
    if exc is not None:
        count("C_raised")
        count("C_exc:" + type(exc).__name__)
        info["raised"] = type(exc).__name__
        d = snapshot.diff(s0, s1)
        if d:
            kinds = sorted({{"v": "value", "n": "node", "g": "graph"}.get(lab[0], "obj") + "." + f for lab, f, _, _ in d})
            findings.append((f"C1:raised-but-state-changed|{type(exc).__name__}@{histories.raise_site(exc)}|{'+'.join(kinds)}",
                             f"rename_values raised {type(exc).__name__}: {str(exc)[:160]} but changed: "
                             + "; ".join(f"{lab}.{f}: {x!r} -> {y!r}" for lab, f, x, y in d[:5])))
        return findings, info
    count("C_returned")
    info["raised"] = None
    target = {}
    for v, n in zip(values, names):
        target[id(v)] = (v, n)
    for v, n in target.values():
        count("C_targets_checked")
        if v.name != n:
            findings.append((f"C2:target-not-applied|{'initializer' if id(v) in was_init else 'other'}",
                             f"{w.label(v)} should be named {n!r}, is {v.name!r}"))
    for g in graphs:
        for k, v in g.initializers.items():
            count("C_initializer_keys_checked")
            if k != v.name:
                findings.append(("C3:initializer-key-not-name", f"{w.label(g)}: key {k!r} holds value named {v.name!r}"))
        now = {id(v) for v in g.initializers.values()}
        if now != init_before[id(g)]:
            findings.append(("C3:initializer-set-changed", f"{w.label(g)}: {len(init_before[id(g)])} initializers before, {len(now)} after"))
    for v in w.values:
        g = was_init.get(id(v))
        if g is not None and not (v.is_initializer() and v.graph is g and g.initializers.get(v.name) is v):
            findings.append(("C3:initializer-not-registered-under-its-name", f"{w.label(v)} named {v.name!r}"))
        if id(v) not in target and v.name != names_before[id(v)]:
            findings.append(("C4:bystander-renamed", f"{w.label(v)}: {names_before[id(v)]!r} -> {v.name!r}"))
    a, _ = strip_names(s0)
    c, _ = strip_names(s1)
    if snapshot.diff(a, c):
        count("C_report_only_non_name_change")
    return findings, info
