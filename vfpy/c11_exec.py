"""C11 executor: runs one history (setup + operation list) on the real onnx_ir objects and on the
reference model side by side and judges it.

Oracle layers
  L1  spec predicates, each judged only in situations the statement is unambiguous about
      (a) next() raises nothing but StopIteration; bounded work inside one next(); drains after edits stop
      (b) a yielded node is a member (reference sequence) at that moment
      (c) nodes present at the iterator's start and never touched: exactly once, in graph order
      (d) node inserted behind / in front of a *live* cursor node and not touched again: yielded / skipped
      (e) cursor node removed or moved (really moved), follower untouched until the next step: follower is next
  L2  the reference model of c11_model.py: exact yield sequence
  F   len / list / reversed / index / negative index / out-of-range / membership / slices against
      the reference sequence after every step.  Membership is probed with every member node, with
      non-member nodes, and with operands that are no node of the sequence at all but are related
      to it (values attached to the graph or produced by its nodes, nodes of nested subgraphs, the
      owner node, the graph / function object itself, look-alikes by name, None / int / str / tuple):
      `x in container` is True exactly for the node objects of the reference sequence.

Same-position ("degenerate") moves and sort() are ambiguous in the statement for iterators that
are parked on the node concerned: those iterators are *tainted* - their L2 comparison is counted
in report_only_* counters, never as a violation; L1 and F still apply.
"""

from __future__ import annotations

import sys

import onnx_ir as ir
from onnx_ir import traversal

from vfpy.c11_model import ROOT, MFlat, MGraph, MRec


class Violation(Exception):
    def __init__(self, clause: str, itkind: str, message: str, slot: int | None = None) -> None:
        super().__init__(message)
        self.clause = clause
        self.itkind = itkind
        self.message = message
        self.slot = slot


class Abort(Exception):
    """The case cannot be continued (an edit the statement does not cover raised); report-only."""


class LoopDetected(Exception):
    pass


class Watchdog:
    """Structural hang diagnosis: counts executed lines inside the linked-list / traversal iterator
    code objects; one call that executes more loop lines than a walk over *every link box ever
    created* could need can only be going round a cycle.  No wall clock involved."""

    TOOL = 4

    def __init__(self) -> None:
        self.count = 0
        self.limit = 1 << 60
        self.ok = False
        self.fired = 0
        try:
            from onnx_ir import _linked_list

            mon = sys.monitoring
            codes = []
            for name in ("__iter__", "__reversed__", "__getitem__"):
                fn = getattr(_linked_list.DoublyLinkedSet, name, None)
                if fn is not None and hasattr(fn, "__code__"):
                    codes.append(fn.__code__)
            for name in ("_recursive_node_iter", "_iterate_subgraphs"):
                fn = getattr(traversal.RecursiveGraphIterator, name, None)
                if fn is not None and hasattr(fn, "__code__"):
                    codes.append(fn.__code__)
            if not codes:
                return
            mon.use_tool_id(self.TOOL, "vf-c11-watchdog")
            mon.register_callback(self.TOOL, mon.events.LINE, self._line)
            for code in codes:
                mon.set_local_events(self.TOOL, code, mon.events.LINE)
            self.ok = True
        except Exception:  # noqa: BLE001 - watchdog is optional; without it a hang is a shard timeout
            self.ok = False

    def _line(self, code, line):  # noqa: ANN001
        self.count += 1
        if self.count > self.limit:
            self.count = 0
            self.fired += 1
            raise LoopDetected(f"more than {self.limit} iterator lines executed inside one call")


WD = Watchdog()

KINDS = ("fwd", "rev", "rec_fwd", "rec_rev")


def _short(obj) -> str:
    if isinstance(obj, (ir.Value, ir.Node, ir.Graph, ir.Function)):
        return f"<{type(obj).__name__} {getattr(obj, 'name', None)!r}>"
    return repr(obj)[:60]
_STOP = object()


class It:
    __slots__ = (
        "slot", "kind", "gid", "spec", "rec", "rev", "real", "model", "started", "exhausted",
        "tainted", "taint_by", "lost", "yields", "l1_cur", "expect", "pending_e", "edit_inflight", "nodesc",
    )


class Run:
    def __init__(self, setup: dict, stats: dict | None = None, f_mode: str = "full") -> None:
        self.setup = setup
        self.f_light = f_mode != "full"
        self.stats = stats if stats is not None else {}
        self.t = 0
        self.N = setup["n"]
        self.gdepth = setup["gdepth"]
        self.height = setup["height"]
        self.attrs = {int(k): v for k, v in setup.get("attrs", {}).items()}
        self.nontrivial = False
        self.kind_log: list[str] = []
        self.trace: list[str] = []
        self.boxes = 0
        self.cur_call = ""
        self._build_real()
        self._build_model()
        self.iters: list[It] = []
        for slot, spec in enumerate(setup["iters"]):
            it = It()
            it.slot = slot
            it.spec = spec
            it.kind = spec["kind"]
            it.gid = spec["g"] % len(self.cont)
            it.rec = it.kind.startswith("rec")
            it.rev = it.kind.endswith("rev")
            it.nodesc = frozenset(spec.get("nodesc") or ())
            self._start_iter(it)
            self.iters.append(it)

    # ---------------------------------------------------------------- construction
    def bump(self, key: str, n: int = 1) -> None:
        self.stats[key] = self.stats.get(key, 0) + n

    def _build_real(self) -> None:
        s = self.setup
        ng = len(s["init"])
        # optional graph inputs / initializers / outputs and per-node output counts (setup keys "io", "nout")
        io = {int(k) % ng: v for k, v in (s.get("io") or {}).items()}
        nout = list(s.get("nout") or ())
        self.io_values: dict[int, dict[str, list]] = {}
        for gid in range(ng):
            spec = io.get(gid) or {}
            self.io_values[gid] = {
                "in": [ir.Value(name=f"g{gid}_in{k}") for k in range(int(spec.get("in", 0)))],
                "init": [ir.Value(name=f"g{gid}_w{k}") for k in range(int(spec.get("init", 0)))],
                "out": [],
            }
        graphs = [None] + [
            ir.Graph(self.io_values[gid]["in"], [], nodes=[], initializers=self.io_values[gid]["init"], name=f"g{gid}")
            for gid in range(1, ng)
        ]
        nodes: list[ir.Node] = []
        for n in range(self.N):
            attrs = []
            for j, (kind, val) in enumerate(self.attrs.get(n, ())):
                if kind == "G":
                    attrs.append(ir.AttrGraph(f"a{j}", graphs[val]))
                else:
                    attrs.append(ir.AttrGraphs(f"a{j}", [graphs[v] for v in val]))
            inputs = [nodes[p].outputs[0] for p in s["inputs"][n]]
            k_out = 1 + (int(nout[n]) - 1) % 3 if n < len(nout) else 1
            nodes.append(ir.Node("", f"Op{n % 3}", inputs, attrs, num_outputs=k_out, name=f"n{n}"))
        self.nodes = nodes
        self.idx = {id(node): n for n, node in enumerate(nodes)}
        taken: set[int] = set()
        for gid in range(ng):
            spec = io.get(gid) or {}
            outs = []
            for n in spec.get("out", ()):
                n %= self.N
                if n not in taken:  # a value can be the output of one graph only
                    taken.add(n)
                    outs.append(nodes[n].outputs[-1])
            if spec.get("thru") and self.io_values[gid]["in"]:
                outs.append(self.io_values[gid]["in"][0])
            self.io_values[gid]["out"] = outs
        self.graph_out_ids = {id(v) for gid in range(ng) for v in self.io_values[gid]["out"]}
        for gid in range(1, ng):
            graphs[gid].outputs.extend(self.io_values[gid]["out"])
            graphs[gid].extend([nodes[n] for n in s["init"][gid]])
        # the top-level graph receives its nodes through the constructor (it is nobody's subgraph)
        graphs[0] = ir.Graph(self.io_values[0]["in"], self.io_values[0]["out"], nodes=[nodes[n] for n in s["init"][0]],
                             initializers=self.io_values[0]["init"], name="g0")
        self.graphs_real = graphs
        self.cont: list = list(graphs)
        if s.get("main") == "function":
            self.cont[0] = ir.Function("c11", "f", graph=graphs[0], attributes=[])
        # operands for membership probes that are never part of any node sequence
        self.free_value = ir.Value(name="vf_free")
        self.twins: dict[int, ir.Node] = {}
        self.owner_of: dict[int, int] = {}
        for n, alist in self.attrs.items():
            for kind, val in alist:
                for sub in ([val] if kind == "G" else val):
                    self.owner_of.setdefault(sub, n)

    def _build_model(self) -> None:
        s = self.setup
        self.mg = {gid: MGraph(gid) for gid in range(len(s["init"]))}
        self.where: dict[int, int | None] = {n: None for n in range(self.N)}
        self.touch = [-1] * self.N
        self.last_edit = {gid: -1 for gid in self.mg}
        for gid, members in enumerate(s["init"]):
            g = self.mg[gid]
            for n in members:
                g.place_after(g.seq[-1] if g.seq else None, n)
                self.where[n] = gid
                self.boxes += 1
        self._set_limit()

    def _set_limit(self) -> None:
        # lines per visited box <= 8; a walk can pass every box ever created at most once
        WD.limit = 16 * (self.boxes + self.N + 4 + 2 * len(self.mg))

    def _start_iter(self, it: It) -> None:
        c = self.cont[it.gid]
        form = it.spec.get("form", 0)
        pred = None
        if it.nodesc:
            banned = {id(self.nodes[n % self.N]) for n in it.nodesc}
            pred = lambda node: id(node) not in banned  # noqa: E731
        if it.kind == "fwd":
            it.real = iter(c)
        elif it.kind == "rev":
            it.real = reversed(c)
        elif it.kind == "rec_fwd":
            if pred is not None:
                it.real = traversal.RecursiveGraphIterator(c, recursive=pred)
            elif form % 3 == 0:
                it.real = c.all_nodes()
            elif form % 3 == 1:
                it.real = traversal.RecursiveGraphIterator(c)
            else:
                it.real = iter(traversal.RecursiveGraphIterator(c))
        else:
            if pred is not None:
                it.real = traversal.RecursiveGraphIterator(c, recursive=pred, reverse=True)
            elif form % 3 == 0:
                it.real = traversal.RecursiveGraphIterator(c, reverse=True)
            elif form % 3 == 1:
                it.real = reversed(c.all_nodes())
            else:
                it.real = reversed(traversal.RecursiveGraphIterator(c))
        if it.rec:
            it.model = MRec(self.mg, self.attrs, it.gid, it.rev,
                            frozenset(n % self.N for n in it.nodesc))
        else:
            it.model = MFlat(self.mg[it.gid], it.rev)
        it.started = None
        it.exhausted = False
        it.tainted = None
        it.taint_by = ""
        it.lost = False
        it.yields = []
        it.l1_cur = ROOT
        it.expect = []
        it.pending_e = None
        it.edit_inflight = False

    # ---------------------------------------------------------------- helpers
    def fits(self, n: int, gid: int) -> bool:
        return self.height[n] + self.gdepth[gid] <= 2

    def describe(self) -> str:
        parts = []
        for gid, g in self.mg.items():
            parts.append(f"g{gid}={g.order()}")
        return " ".join(parts)

    def _inflight_flats(self, gid: int):
        g = self.mg[gid]
        for it in self.iters:
            if it.exhausted or it.started is None:
                continue
            for flat in it.model.flats():
                if flat.g is g:
                    yield it, flat

    def _mark_edit(self, gid: int) -> None:
        self.last_edit[gid] = self.t
        hit = False
        for it, _flat in self._inflight_flats(gid):
            it.edit_inflight = True
            hit = True
        if hit:
            self.bump("edits_while_iterator_in_flight")

    # ---------------------------------------------------------------- model edits with L1 hooks
    def _killed(self, gid: int, old, degenerate: bool) -> None:
        """L1 bookkeeping for real flat iterators whose cursor node just lost its place."""
        for it in self.iters:
            if it.rec or it.gid != gid or it.exhausted or it.l1_cur is not old:
                continue
            self.bump("edit_hit_cursor_node")
            if degenerate:
                it.l1_cur = None  # live or tombstone? the statement does not say
                it.pending_e = None
            else:
                it.pending_e = (old.pred if it.rev else old.succ, self.t)

    def _m_remove(self, gid: int, n: int) -> None:
        old = self.mg[gid].remove(n)
        self.where[n] = None
        self.touch[n] = self.t
        self._killed(gid, old, False)

    def _m_place(self, gid: int, anchor, n: int, taint: str | None = None):
        g = self.mg[gid]
        old = g.cur.get(n)
        deps = []
        deps_f = []
        if old is not None:
            deps_f = [(it, flat) for it, flat in self._inflight_flats(gid) if flat.depends_on(old)]
            deps = [it for it, _flat in deps_f]
        anchor_was_old = old is not None and anchor is old
        new, old, degenerate = g.place_after(anchor, n)
        self.boxes += 1
        self.where[n] = gid
        self.touch[n] = self.t
        if old is not None:
            if degenerate and taint is None:
                self.bump("degenerate_moves")
                for it, flat in deps_f:
                    if not anchor_was_old and not it.rec and flat.cur is old:
                        # A flat iterator parked on the very node that is re-inserted behind ANOTHER live
                        # node (its own predecessor): the statement is explicit here - "when the current
                        # node is ... moved, iteration resumes with the node that followed it at its
                        # original place" - and the place of the new incarnation relative to the cursor
                        # does not enter into it.  Judged exactly (L2), not tainted.
                        self.bump("degenerate_moves_of_cursor_node_judged_exactly")
                        continue
                    # the latest same-position move this iterator depends on, and its kind
                    it.taint_by = (f"{self.cur_call}:{'self' if anchor_was_old else 'other'}-anchored:"
                                   f"{'cursor-on-node' if flat.cur is old else 'via-tombstones'}:"
                                   f"{'recursive' if it.rec else 'flat'}-{'bwd' if flat.rev else 'fwd'}")
                    if it.tainted is None:
                        it.tainted = "degenerate"
                        self.bump("tainted_iters_degenerate")
            self._killed(gid, old, degenerate)
        return new, old, degenerate

    def _expectations(self, gid: int, placed: list[int]) -> None:
        """L1(d): for flat iterators parked on a live node of this graph, note on which side of
        the cursor each placed node ended up."""
        g = self.mg[gid]
        for it in self.iters:
            if it.rec or it.gid != gid or it.exhausted or it.started is None:
                continue
            c = it.l1_cur
            if c is None or c is ROOT or not c.live:
                continue
            kc = g.pos(c)
            for n in set(placed):
                if n == c.n:
                    continue
                kn = g.pos(g.cur[n])
                behind = kn < kc if it.rev else kn > kc
                it.expect.append((n, self.t, behind))

    # ---------------------------------------------------------------- F checks
    def check_f(self, gid: int, light: bool = False, force: bool = False) -> None:
        c = self.cont[gid]
        order = self.mg[gid].order()
        ref = [self.nodes[n] for n in order]
        L = len(ref)

        def guarded(what, fn):
            WD.count = 0
            try:
                return fn()
            except LoopDetected as e:
                raise Violation("L1a:nontermination|" + what, "-", f"{what} on g{gid}: {e}; reference {order}") from None
            except Exception as e:  # noqa: BLE001
                raise Violation(f"F:{what}-raises:{type(e).__name__}", "-",
                                f"{what} on g{gid} raised {type(e).__name__}: {e}; reference {order}") from None

        def names(seq):
            return [self.idx.get(id(x), "?") for x in seq]

        self.bump("f_checks")
        got = guarded("len", lambda: len(c))
        if got != L:
            raise Violation("F:len", "-", f"len(g{gid})={got}, reference sequence {order} has {L}")
        lst = guarded("list", lambda: list(c))
        if len(lst) != L or any(a is not b for a, b in zip(lst, ref)):
            raise Violation("F:list", "-", f"list(g{gid})={names(lst)} but reference sequence is {order}")
        if light or (self.f_light and not force):
            return
        rl = guarded("reversed", lambda: list(reversed(c)))
        if len(rl) != L or any(a is not b for a, b in zip(rl, reversed(ref))):
            raise Violation("F:reversed", "-", f"list(reversed(g{gid}))={names(rl)} but reference is reversed {order}")
        for i in range(L):
            a = guarded("index", lambda i=i: c[i])
            if a is not ref[i]:
                raise Violation("F:index", "-", f"g{gid}[{i}] is {names([a])} but reference {order}")
            b = guarded("negative-index", lambda i=i: c[-1 - i])
            if b is not ref[-1 - i]:
                raise Violation("F:negative-index", "-", f"g{gid}[{-1 - i}] is {names([b])} but reference {order}")
        self.bump("f_index_reads", 2 * L)
        # the descriptive accessors of Graph/Function describe the same sequence
        if callable(getattr(c, "num_nodes", None)):
            got = guarded("num_nodes", lambda: c.num_nodes())
            if got != L:
                raise Violation("F:num_nodes", "-", f"g{gid}.num_nodes()={got}, reference sequence {order} has {L}")
            self.bump("f_num_nodes_reads")
        if callable(getattr(c, "node", None)) and L:
            i = self.t % L
            a = guarded("node(index)", lambda: c.node(i))
            if a is not ref[i]:
                raise Violation("F:node(index)", "-", f"g{gid}.node({i}) is {names([a])} but reference {order}")
            name = ref[i].name
            if isinstance(name, str):
                first = next(x for x in ref if x.name == name)
                b = guarded("node(name)", lambda: c.node(name))
                if b is not first:
                    raise Violation("F:node(name)", "-", f"g{gid}.node({name!r}) is {names([b])}, the first node of that name "
                                                         f"in the reference sequence {order} is {names([first])}")
            gone = "vf-no-such-node-name"
            WD.count = 0
            try:
                x = c.node(gone)
            except LoopDetected as e:
                raise Violation("L1a:nontermination|node(name)", "-", f"g{gid}.node({gone!r}): {e}") from None
            except Exception:  # noqa: BLE001 - any exception type is accepted for "not found"
                pass
            else:
                raise Violation("F:node(name)-absent-accepted", "-", f"g{gid}.node({gone!r}) returned {names([x])}")
            self.bump("f_node_accessor_reads", 3)
        for bad in (L, -L - 1):
            WD.count = 0
            try:
                x = c[bad]
            except LoopDetected as e:
                raise Violation("L1a:nontermination|index", "-", f"g{gid}[{bad}]: {e}") from None
            except Exception:  # noqa: BLE001 - any exception type is accepted for "out of range"
                self.bump("f_out_of_range_raised")
            else:
                raise Violation("F:index-out-of-range-accepted", "-",
                                f"g{gid}[{bad}] returned {names([x])} although the reference sequence {order} has {L} nodes")
        members = set(order)
        probe = list(order)
        others = [n for n in range(self.N) if n not in members]
        probe += others[(self.t) % max(1, len(others)):][:3] if others else []
        for n in probe:
            node = self.nodes[n]
            got_in = guarded("membership", lambda node=node: node in c)
            if got_in != (n in members):
                raise Violation("F:membership", "-", f"(n{n} in g{gid}) is {got_in} but reference sequence is {order}")
        self.bump("f_membership_reads", len(probe))
        # every second step (and always in the initial and the final state)
        for label, obj in (self._foreign_probes(gid, order) if force or self.t % 2 == 0 else ()):
            got_in = guarded(f"membership({label})", lambda obj=obj: obj in c)
            self.bump("f_foreign_membership_reads")
            self.bump("f_foreign:" + label)
            if got_in is not False:
                raise Violation(f"F:membership-of-non-node|{label}", "-",
                                f"({label} in g{gid}) is {got_in!r}; the operand {_short(obj)} is no node of the "
                                f"{type(c).__name__}'s sequence, reference sequence is {order}")
        if L and self.t % 3 == 0:
            lo, hi = self.t % (L + 1), (self.t * 7) % (L + 2)
            for sl in (slice(lo, hi), slice(None, None, -1), slice(-2, None)):
                got_sl = guarded("slice", lambda sl=sl: c[sl])
                exp = ref[sl]
                if len(got_sl) != len(exp) or any(a is not b for a, b in zip(got_sl, exp)):
                    raise Violation("F:slice", "-", f"g{gid}[{sl}] = {names(got_sl)} but reference {order}")
            self.bump("f_slice_reads", 3)

    def _foreign_probes(self, gid: int, order: list[int]) -> list[tuple[str, object]]:
        """Operands that are no node of g<gid>'s sequence although they are related to it; one
        representative per class, rotating with the step counter.  Expected membership: False."""
        t = self.t
        L = len(order)
        members = set(order)
        c = self.cont[gid]
        g_real = self.graphs_real[gid]
        out: list[tuple[str, object]] = []

        def rot(seq, k=0):
            return seq[(t + k) % len(seq)]

        # values
        if L:
            m = rot(order)
            for k, v in enumerate(self.nodes[m].outputs):
                out.append(("value:output-of-member-node" if k == 0 else "value:later-output-of-member-node", v))
        nested_graphs = self._closure(gid)[1:]
        nested_nodes = [n for h in nested_graphs for n in self.mg[h].order()]
        detached = [n for n in range(self.N) if self.where[n] is None]
        inside = members.union(nested_nodes)
        elsewhere = [n for n in range(self.N) if self.where[n] is not None and n not in inside]
        if nested_nodes:
            n = rot(nested_nodes)
            out.append(("node:of-nested-subgraph", self.nodes[n]))
            out.append(("value:output-of-nested-subgraph-node", self.nodes[n].outputs[0]))
        if detached:
            out.append(("value:output-of-detached-node", self.nodes[rot(detached)].outputs[0]))
        if elsewhere:
            out.append(("value:output-of-node-in-another-graph", self.nodes[rot(elsewhere)].outputs[0]))
        own = self.io_values[gid]
        for key, label in (("in", "value:graph-input"), ("init", "value:graph-initializer"), ("out", "value:graph-output")):
            if own[key]:
                out.append((label, rot(own[key])))
        other_gids = [h for h in self.io_values if h != gid and (self.io_values[h]["in"] or self.io_values[h]["init"])]
        if other_gids:
            h = rot(other_gids)
            out.append(("value:owned-by-another-graph", rot(self.io_values[h]["in"] + self.io_values[h]["init"])))
        out.append(("value:detached", self.free_value))
        # look-alikes
        if L:
            m = rot(order, 1)
            twin = self.twins.get(m)
            if twin is None:
                src = self.nodes[m]
                twin = self.twins[m] = ir.Node(src.domain, src.op_type, [], num_outputs=1, name=src.name)
            out.append(("node:detached-namesake-of-member", twin))
            out.append(("str:name-of-member-node", self.nodes[m].name))
            out.append(("tuple:of-member-node", (self.nodes[m],)))
            out.append(("int:valid-index", rot([0, L - 1, -1])))
        else:
            out.append(("str:other", rot(["", "n0"])))
        out.append(("int:no-index", rot([L, -L - 1, 1 << 70])))
        out.append(("None", None))
        # owners and containers
        owner = self.owner_of.get(gid)
        if owner is not None and owner not in members:
            out.append(("node:owner-of-this-graph", self.nodes[owner]))
        out.append(("graph:itself", g_real))
        if c is not g_real:
            out.append(("function:itself", c))
        elif self.cont[0] is not self.graphs_real[0]:
            out.append(("function:another", self.cont[0]))
        if nested_graphs:
            out.append(("graph:nested-subgraph", self.graphs_real[rot(nested_graphs)]))
        others = [h for h in range(len(self.graphs_real)) if h != gid and h not in nested_graphs]
        if others:
            out.append(("graph:another", self.graphs_real[rot(others)]))
        return out

    # ---------------------------------------------------------------- real edit calls
    def _real(self, label: str, fn) -> None:
        WD.count = 0
        WD.limit *= 8
        try:
            fn()
        except LoopDetected as e:
            raise Violation("L1a:nontermination|in-edit", "-", f"{label}: {e}") from None
        except Exception as e:  # noqa: BLE001
            self.bump(f"report_only_edit_raised:{label.split('(')[0]}:{type(e).__name__}")
            raise Abort(f"{label} raised {type(e).__name__}: {e}") from None
        finally:
            self._set_limit()

    def _acquire(self, gid: int, raw: list[int], anchor: int | None) -> tuple[list[int], set[str], set[int]]:
        """Nodes of ``raw`` that may go into graph gid; nodes living in another graph are removed
        from it first (a move between graphs).  Returns (nodes, classes, other graphs touched)."""
        out: list[int] = []
        classes: set[str] = set()
        touched: set[int] = set()
        for n in raw:
            n %= self.N
            if n == anchor or not self.fits(n, gid):
                continue
            h = self.where[n]
            if h is not None and h != gid:
                if n in out:
                    continue
                node = self.nodes[n]
                self._real(f"remove(g{h})", lambda h=h, node=node: self.cont[h].remove(node))
                self._m_remove(h, n)
                self._mark_edit(h)
                touched.add(h)
                classes.add("xmove")
                self.bump("ins_xmove")
            elif h == gid or n in out:
                classes.add("move")
                self.bump("ins_move")
            else:
                classes.add("new")
                self.bump("ins_new")
            out.append(n)
        return out, classes, touched

    def _log(self, name: str, classes) -> None:
        label = name + ("(" + ",".join(sorted(classes)) + ")" if classes else "")
        self.kind_log.append(label)
        self.bump("op:" + label)

    def do_edit(self, op: list) -> bool:
        kind = op[0]
        self.cur_call = "insert_" + op[1] if kind == "ins" else kind
        if kind in ("append", "extend"):
            gid = op[1] % len(self.cont)
            raw = [op[2]] if kind == "append" else list(op[2])
            nodes, classes, touched = self._acquire(gid, raw, None)
            if kind == "append" and not nodes:
                return False
            c = self.cont[gid]
            objs = [self.nodes[n] for n in nodes]
            if kind == "append":
                self._real(f"append(g{gid})", lambda: c.append(objs[0]))
            elif len(op) > 3 and op[3] % 2:
                self._real(f"extend(g{gid})", lambda: c.extend(iter(objs)))
            else:
                self._real(f"extend(g{gid})", lambda: c.extend(objs))
            g = self.mg[gid]
            degenerate = False
            for n in nodes:
                _new, _old, d = self._m_place(gid, g.seq[-1] if g.seq else None, n)
                degenerate |= d
            if degenerate:
                classes.add("degenerate")
            if nodes:
                self._mark_edit(gid)
                self._expectations(gid, nodes)
            else:
                classes.add("empty")
            self._log(kind, classes)
            for h in touched | {gid}:
                self.check_f(h)
            return True
        if kind == "ins":
            _k, side, gid, anchor, raw, form = op
            gid %= len(self.cont)
            anchor %= self.N
            g = self.mg[gid]
            if anchor not in g:
                return False
            nodes, classes, touched = self._acquire(gid, list(raw), anchor)
            c = self.cont[gid]
            a_obj = self.nodes[anchor]
            objs = [self.nodes[n] for n in nodes]
            single = len(objs) == 1
            meth = "insert_after" if side == "after" else "insert_before"
            if form % 4 == 1 and single:
                self._real(f"{meth}(g{gid})", lambda: getattr(c, meth)(a_obj, objs[0]))
            elif form % 4 == 2:
                nm = "append" if side == "after" else "prepend"
                self._real(f"Node.{nm}(g{gid})", lambda: getattr(a_obj, nm)(objs))
            elif form % 4 == 3:
                self._real(f"{meth}(g{gid})", lambda: getattr(c, meth)(a_obj, tuple(objs)))
            else:
                self._real(f"{meth}(g{gid})", lambda: getattr(c, meth)(a_obj, objs))
            a_inc = g.cur[anchor]
            if side == "after":
                point = a_inc
            else:
                k = g.pos(a_inc)
                point = g.seq[k - 1] if k > 0 else None
            degenerate = False
            for n in nodes:
                point, _old, d = self._m_place(gid, point, n)
                degenerate |= d
            if degenerate:
                classes.add("degenerate")
            if nodes:
                self._mark_edit(gid)
                self._expectations(gid, nodes)
            else:
                classes.add("empty")
            self._log(meth, classes)
            for h in touched | {gid}:
                self.check_f(h)
            return True
        if kind == "remove":
            _k, gid, raw, safe, form = op
            gid %= len(self.cont)
            g = self.mg[gid]
            nodes = []
            for n in raw:
                n %= self.N
                if n in g and n not in nodes:
                    nodes.append(n)
            if not nodes:
                return False
            objs = [self.nodes[n] for n in nodes]
            c = self.cont[gid]
            if safe:
                outs = {id(self.nodes[n]) for n in nodes}
                for o in objs:
                    for v in o.outputs:
                        if id(v) in self.graph_out_ids or any(id(u.node) not in outs for u in v.uses()):
                            safe = False
            if form % 3 == 0 and len(objs) == 1:
                self._real(f"remove(g{gid})", lambda: c.remove(objs[0], safe=bool(safe)))
            elif form % 3 == 1:
                self._real(f"remove(g{gid})", lambda: c.remove(tuple(objs), safe=bool(safe)))
            else:
                self._real(f"remove(g{gid})", lambda: c.remove(objs, safe=bool(safe)))
            for n in sorted(nodes, key=lambda n: g.pos(g.cur[n])):
                self._m_remove(gid, n)
            self._mark_edit(gid)
            self._log("remove", {"multi"} if len(nodes) > 1 else set())
            self.check_f(gid)
            return True
        if kind == "sort":
            gid = op[1] % len(self.cont)
            c = self.cont[gid]
            WD.count = 0
            WD.limit *= 16
            try:
                c.sort()
            except LoopDetected as e:
                raise Violation("L1a:nontermination|in-edit", "-", f"sort(g{gid}): {e}") from None
            except Exception as e:  # noqa: BLE001 - e.g. ValueError for a cycle; not C11's subject
                self.bump(f"sort_raised:{type(e).__name__}")
                self._set_limit()
                try:
                    for h in self._closure(gid):
                        self.check_f(h, light=True)
                except Violation as v:
                    self.bump("report_only_sort_raised_and_modified")
                    raise Abort(f"sort raised and modified: {v.message}") from None
                self._log("sort", {"raised"})
                return True
            finally:
                self._set_limit()
            self.bump("sort_ok")
            reordered = False
            for h in self._closure(gid):
                g = self.mg[h]
                if not g.seq:
                    continue
                WD.count = 0
                try:
                    new_order = [self.idx.get(id(x), -1) for x in self.cont[h]]
                except Exception as e:  # noqa: BLE001
                    raise Violation(f"F:list-raises:{type(e).__name__}", "-", f"list(g{h}) after sort raised {e}") from None
                if sorted(new_order) != sorted(g.order()):
                    raise Violation("F:list", "-", f"after sort list(g{h})={new_order}, members were {g.order()}")
                reordered |= new_order != g.order()
                for it, _flat in list(self._inflight_flats(h)):
                    if it.tainted != "sort":
                        it.tainted = "sort"
                        self.bump("tainted_iters_sort")
                for n in new_order:  # the statement does not say how a sort moves nodes: modelled as extend(new order)
                    self._m_place(h, g.seq[-1] if g.seq else None, n, taint="sort")
                self._mark_edit(h)
            if reordered:
                self.bump("sort_reordered")
            self._log("sort", set())
            for h in self._closure(gid):
                self.check_f(h)
            return True
        raise AssertionError(f"harness bug: unknown op {op!r}")

    def _closure(self, gid: int) -> list[int]:
        out = [gid]
        k = 0
        while k < len(out):
            for n in self.mg[out[k]].order():
                for kind, val in self.attrs.get(n, ()):
                    for sub in ([val] if kind == "G" else val):
                        if sub not in out:
                            out.append(sub)
            k += 1
        return out

    # ---------------------------------------------------------------- iterator steps
    def do_next(self, it: It, draining: bool = False) -> bool:
        """One next() on the real iterator and the model.  Returns False when it is exhausted."""
        if it.exhausted:
            if draining:
                return False
            self._start_iter(it)
            self.bump("iter_restarts")
        ik = it.kind
        WD.count = 0
        try:
            node = next(it.real)
        except StopIteration:
            node = _STOP
        except LoopDetected as e:
            raise Violation("L1a:nontermination|next", ik, f"next() on {ik} iterator #{it.slot} of g{it.gid}: {e}; {self.describe()}", it.slot) from None
        except Exception as e:  # noqa: BLE001
            raise Violation(f"L1a:next-raises:{type(e).__name__}", ik,
                            f"next() on {ik} iterator #{it.slot} of g{it.gid} raised {type(e).__name__}: {e}; {self.describe()}", it.slot) from None
        self.bump("next_calls")
        self.bump("next_calls:" + ik)
        if it.started is None:
            it.started = self.t
        if it.edit_inflight:
            self.nontrivial = True
            self.bump("next_after_inflight_edit")
        if node is _STOP:
            real_n = None
            self.bump("next_stop")
        else:
            real_n = self.idx.get(id(node))
            if real_n is None:
                raise Violation("L1b:yielded-foreign-object", ik, f"{ik} iterator yielded {node!r}, not a node of the universe", it.slot)
            self.bump("next_yield")
        self.trace.append(f"it{it.slot}->{'stop' if real_n is None else 'n%d' % real_n}")
        # L1(b) membership at the moment of the yield
        if real_n is not None:
            self.bump("l1b_judged")
            if it.rec:
                if self.where[real_n] is None:
                    raise Violation("L1b:yielded-nonmember", ik,
                                    f"{ik} iterator #{it.slot} yielded n{real_n}, which is in no graph now; {self.describe()}", it.slot)
            elif real_n not in self.mg[it.gid]:
                raise Violation("L1b:yielded-nonmember", ik,
                                f"{ik} iterator #{it.slot} of g{it.gid} yielded n{real_n}, not a member now; {self.describe()}", it.slot)
            it.yields.append((self.t, real_n))
        # L1(e) resume behind a removed/moved cursor node
        if it.pending_e is not None:
            f, s = it.pending_e
            it.pending_e = None
            if f is None:
                if self.last_edit[it.gid] == s:
                    self.bump("l1e_judged_end")
                    if real_n is not None:
                        raise Violation("L1e:resume-not-original-successor", ik,
                                        f"cursor node of {ik} iterator #{it.slot} was the last in iteration order when removed/moved at step {s}, "
                                        f"no edit since, but next() yielded n{real_n}; {self.describe()}", it.slot)
            elif f.live:
                self.bump("l1e_judged")
                if real_n != f.n:
                    raise Violation("L1e:resume-not-original-successor", ik,
                                    f"cursor node of {ik} iterator #{it.slot} was removed/moved at step {s}; its follower n{f.n} was not touched since, "
                                    f"but next() gave {'StopIteration' if real_n is None else 'n%d' % real_n}; {self.describe()}", it.slot)
        # L2 reference model
        if not it.lost:
            h0 = it.model.hops
            m = it.model.next()
            m_n = None if m is None else m.n
            if it.model.hops != h0:
                self.bump("tombstone_hops", it.model.hops - h0)
                self.bump("next_from_tombstone")
            if it.tainted is None:
                self.bump("l2_compared")
                if it.rec:
                    self.bump("l2_compared_recursive")
                if m_n != real_n:
                    raise Violation("L2:yield-sequence", ik,
                                    f"{ik} iterator #{it.slot} of g{it.gid}: real next() gave {'StopIteration' if real_n is None else 'n%d' % real_n}, "
                                    f"reference model gives {'StopIteration' if m_n is None else 'n%d' % m_n}; {self.describe()}; yields so far {[n for _s, n in it.yields]}", it.slot)
            else:
                if m_n == real_n:
                    self.bump("report_only_l2_agree_tainted")
                else:
                    self.bump(f"report_only_l2_mismatch_{it.tainted}")
                    if it.taint_by and it.tainted == "degenerate":
                        self.bump(f"report_only_l2_mismatch_{it.tainted}:{it.taint_by}")
                        it.taint_by = ""  # count the first divergence of an iterator only
                    if it.rec or real_n is None:
                        it.lost = True
                    else:
                        it.model.cur = self.mg[it.gid].cur[real_n]
                        it.model.done = False
        # L1 cursor
        if real_n is None:
            it.exhausted = True
            self._judge_end(it)
            return False
        if not it.rec:
            it.l1_cur = self.mg[it.gid].cur[real_n]
        return True

    def _judge_end(self, it: It) -> None:
        ik = it.kind
        start = it.started if it.started is not None else self.t
        ys = [n for _s, n in it.yields]
        if not it.rec:
            order = self.mg[it.gid].order()
            U = [n for n in order if self.touch[n] < start]
            if it.rev:
                U.reverse()
            uset = set(U)
            got = [n for n in ys if n in uset]
            self.bump("l1c_judged")
            self.bump("l1c_nodes", len(U))
            if got != U:
                raise Violation("L1c:untouched-not-exactly-once-in-order", ik,
                                f"{ik} iterator #{it.slot} of g{it.gid} started at step {start}; nodes present then and never touched: {U} (iteration order); "
                                f"it yielded {ys}", it.slot)
            for n, s, want in it.expect:
                if self.touch[n] != s:
                    continue
                cnt = sum(1 for (sy, ny) in it.yields if ny == n and sy > s)
                if want:
                    self.bump("l1d_judged_behind")
                    if cnt < 1:
                        raise Violation("L1d:inserted-after-position-not-yielded", ik,
                                        f"n{n} was placed behind the live cursor node of {ik} iterator #{it.slot} at step {s} and not touched again, "
                                        f"but was never yielded afterwards; yields {it.yields}", it.slot)
                else:
                    self.bump("l1d_judged_before")
                    if cnt:
                        raise Violation("L1d:inserted-before-position-yielded", ik,
                                        f"n{n} was placed in front of the live cursor node of {ik} iterator #{it.slot} at step {s} and not touched again, "
                                        f"but was yielded afterwards; yields {it.yields}", it.slot)
            return
        # recursive: untouched nodes reachable through untouched owners, exactly once, per-graph order
        per_graph: dict[int, list[int]] = {}
        todo = [it.gid]
        banned = {n % self.N for n in it.nodesc}
        while todo:
            gid = todo.pop()
            U = [n for n in self.mg[gid].order() if self.touch[n] < start]
            per_graph[gid] = list(reversed(U)) if it.rev else U
            for n in U:
                if n in banned:
                    continue
                for kind, val in self.attrs.get(n, ()):
                    for sub in ([val] if kind == "G" else val):
                        if sub not in per_graph:
                            todo.append(sub)
        self.bump("l1c_judged")
        for gid, U in per_graph.items():
            uset = set(U)
            got = [n for n in ys if n in uset]
            self.bump("l1c_nodes", len(U))
            if got != U:
                raise Violation("L1c:untouched-not-exactly-once-in-order", ik,
                                f"{ik} iterator #{it.slot} from g{it.gid} started at step {start}; in g{gid} the nodes present then, never touched and reachable "
                                f"through untouched owners are {U} (iteration order); yields restricted to them {got}; all yields {ys}", it.slot)

    # ---------------------------------------------------------------- driving
    def step(self, op: list) -> bool:
        """Execute one operation; False if it was not applicable in the current state."""
        self._set_limit()
        if op[0] == "next":
            if not self.iters:
                return False
            it = self.iters[op[1] % len(self.iters)]
            self.do_next(it)
            if not self.f_light:
                self.check_f(self._top_gid(it), light=True)
            done = True
        else:
            done = self.do_edit(op)
            if not done:
                self.bump("op_not_applicable")
        if done:
            self.t += 1
        return done

    def _top_gid(self, it: It) -> int:
        if it.rec:
            g = it.model.top_graph()
            return g.gid if g is not None else it.gid
        return it.gid

    def finish(self) -> None:
        """Edits stopped: every iterator must finish within 4*(nodes ever created)+10 steps."""
        bound = 4 * self.N + 10
        if self.f_light:
            for gid in self.mg:
                self.check_f(gid, force=True)
        for it in self.iters:
            if it.exhausted and it.started is not None:
                continue
            steps = 0
            while self.do_next(it, draining=True):
                steps += 1
                self.bump("drain_steps")
                if steps > bound:
                    raise Violation("L1a:nontermination|drain", it.kind,
                                    f"{it.kind} iterator #{it.slot} of g{it.gid} still yields after {steps} steps without edits "
                                    f"({self.N} nodes exist); last yields {it.yields[-8:]}", it.slot)
            self.t += 1
        for gid in self.mg:
            self.check_f(gid, force=not self.f_light)


def execute(setup: dict, ops: list, stats: dict | None = None, f_mode: str = "full"):
    """Run a complete history.  Returns (violation or None, run)."""
    run = None
    try:
        run = Run(setup, stats, f_mode)
        for gid in run.mg:
            run.check_f(gid)
        for op in ops:
            run.step(op)
        run.finish()
    except Violation as v:
        return v, run
    except Abort:
        if stats is not None:
            stats["aborted_cases"] = stats.get("aborted_cases", 0) + 1
        return None, run
    return None, run
