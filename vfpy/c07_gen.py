"""C07 workload: JSON-able specs of models (main graph + If / GRAPHS sub-graphs) whose
initializers cover every tensor implementation, and of save configurations; builders that turn
a spec into real ``onnx_ir`` objects plus the *expected* (name, dtype, shape, bytes) records.

The expected bytes never come from the code under test: every tensor is constructed *from* a
byte string produced here (own bit (un)packer for sub-byte types), so the oracle is the harness'
own data, not ``tobytes()`` of the original tensor.
"""

from __future__ import annotations

import os
import random
from typing import Any

import ml_dtypes
import numpy as np
import onnx

import onnx_ir as ir

# name -> (bits per element, little-endian numpy storage code or None for special handling)
DTYPES: dict[str, tuple[int, str | None]] = {
    "FLOAT": (32, "<f4"), "DOUBLE": (64, "<f8"), "FLOAT16": (16, "<f2"),
    "INT8": (8, "i1"), "UINT8": (8, "u1"), "INT16": (16, "<i2"), "UINT16": (16, "<u2"),
    "INT32": (32, "<i4"), "UINT32": (32, "<u4"), "INT64": (64, "<i8"), "UINT64": (64, "<u8"),
    "COMPLEX64": (64, "<c8"), "COMPLEX128": (128, "<c16"), "BOOL": (8, None),
    "BFLOAT16": (16, None),
    "FLOAT8E4M3FN": (8, None), "FLOAT8E4M3FNUZ": (8, None), "FLOAT8E5M2": (8, None),
    "FLOAT8E5M2FNUZ": (8, None), "FLOAT8E8M0": (8, None),
    "INT4": (4, None), "UINT4": (4, None), "FLOAT4E2M1": (4, None),
    "INT2": (2, None), "UINT2": (2, None),
}
ML_VIEW = {
    "BFLOAT16": ml_dtypes.bfloat16, "FLOAT8E4M3FN": ml_dtypes.float8_e4m3fn,
    "FLOAT8E4M3FNUZ": ml_dtypes.float8_e4m3fnuz, "FLOAT8E5M2": ml_dtypes.float8_e5m2,
    "FLOAT8E5M2FNUZ": ml_dtypes.float8_e5m2fnuz, "FLOAT8E8M0": ml_dtypes.float8_e8m0fnu,
}
# dtype domain of the safetensors backend (its documented table: no COMPLEX128, no STRING)
ST_DTYPES = [d for d in DTYPES if d != "COMPLEX128"]
# typed TensorProto storage fields used by the proto_typed kind (ONNX spec)
TYPED_FIELD = {
    "FLOAT": "float_data", "DOUBLE": "double_data", "INT64": "int64_data", "INT32": "int32_data",
    "UINT64": "uint64_data", "UINT32": "uint64_data", "INT8": "int32_data", "UINT8": "int32_data",
    "INT16": "int32_data", "UINT16": "int32_data", "BOOL": "int32_data",
}
KINDS = ["array", "array_f", "lazy", "lazy_cache", "packed", "proto_raw", "proto_typed",
         "ext_same", "ext_other", "string"]


class Injected(Exception):
    """Raised by harness-injected tensors / callbacks."""


class InjectedBase(BaseException):
    """Same, but not an ``Exception`` (like KeyboardInterrupt)."""


def dtype_class(name: str) -> str:
    bits = DTYPES.get(name, (0, None))[0]
    if name == "STRING":
        return "STRING"
    if bits == 2:
        return "2-bit"
    if bits == 4:
        return "4-bit"
    return name


def nelem(shape: list[int]) -> int:
    n = 1
    for d in shape:
        n *= d
    return n


def nbytes_of(dtype: str, shape: list[int]) -> int:
    if dtype == "STRING":
        raise ValueError("strings are sized by their content")
    bits = DTYPES[dtype][0]
    return -(-nelem(shape) * bits // 8)


def make_bytes(dtype: str, shape: list[int], dseed: int, kind: str) -> bytes:
    """The original bytes of a tensor (ONNX raw_data layout, little endian, sub-byte packed)."""
    rng = random.Random(f"c07data:{dseed}")
    n = nbytes_of(dtype, shape)
    if dtype == "BOOL":
        return bytes(rng.getrandbits(1) for _ in range(n))
    data = bytearray(rng.randbytes(n))
    bits = DTYPES[dtype][0]
    if bits < 8 and n:
        # padding bits of the last byte carry no element: keep them zero (as ONNX asks) so that
        # representations holding unpacked elements and packed ones agree byte for byte
        used = nelem(shape) * bits - (n - 1) * 8
        data[-1] &= (1 << used) - 1
    if kind == "proto_typed" and dtype in ("FLOAT", "DOUBLE"):
        # float_data/double_data travel through Python floats, which quiet signalling NaNs: keep the
        # exponent away from all-ones so the typed field really holds the bytes the harness expects
        width = 4 if dtype == "FLOAT" else 8
        for i in range(width - 1, n, width):
            data[i] &= 0xBF
    return bytes(data)


def unpack_elements(data: bytes, dtype: str, count: int) -> np.ndarray:
    """Own unpacker (independent of onnx_ir._type_casting): element i sits at bit i*bits."""
    bits = DTYPES[dtype][0]
    per = 8 // bits
    raw = np.frombuffer(data, dtype=np.uint8)
    out = np.zeros(len(raw) * per, dtype=np.uint8)
    for k in range(per):
        out[k::per] = (raw >> (k * bits)) & ((1 << bits) - 1)
    out = out[:count]
    if dtype in ("INT4", "INT2"):
        sign = 1 << (bits - 1)
        return ((out.astype(np.int16) ^ sign) - sign).astype(np.int8)
    return out


def numpy_from_bytes(data: bytes, dtype: str, shape: list[int], mlview: bool) -> np.ndarray:
    bits, code = DTYPES[dtype]
    if bits < 8:
        arr = unpack_elements(data, dtype, nelem(shape))
        return arr.reshape(shape)
    if dtype == "BOOL":
        return np.frombuffer(data, dtype=np.uint8).astype(np.bool_).reshape(shape)
    if code is None:
        store = "<u2" if bits == 16 else "u1"
        arr = np.frombuffer(data, dtype=store).reshape(shape)
        return arr.view(ML_VIEW[dtype]) if mlview else arr
    return np.frombuffer(data, dtype=code).reshape(shape)


# ------------------------------------------------------------------------------------------
# spec generation
# ------------------------------------------------------------------------------------------
GRAPH_SHAPES = [
    ["", ],
    ["", "then_branch", "else_branch"],
    ["", "then_branch", "else_branch", "branches.0", "branches.1"],
    ["", "then_branch", "then_branch/then_branch", "then_branch/else_branch", "else_branch"],
    ["", "then_branch", "then_branch/then_branch", "then_branch/else_branch", "else_branch",
     "branches.0", "branches.1"],
]


def dfs_order(graphs: list[str]) -> list[str]:
    """Pre-order position of graph paths as a serialized model declares them (node order:
    If before the GRAPHS node; attribute order then_branch, else_branch)."""
    rank = {"then_branch": 0, "else_branch": 1, "branches.0": 2, "branches.1": 3}
    return sorted(graphs, key=lambda p: [rank[s] for s in p.split("/")] if p else [])


def _gen_shape(rng: random.Random, dtype: str, size_class: str) -> list[int]:
    bits = DTYPES[dtype][0] if dtype != "STRING" else 8
    if size_class == "zero":
        return rng.choice([[0], [0, 3], [2, 0, 4], [3, 0]])
    if size_class == "scalar":
        return []
    if size_class == "tiny":
        target = rng.randint(1, 24)
    elif size_class == "small":
        target = rng.randint(8, 400) * 8 // bits
    elif size_class == "mid":
        target = rng.randint(600, 9000) * 8 // bits
    elif size_class == "large":
        target = rng.randint(66000, 300000) * 8 // bits
    else:  # huge: just above the 1 MiB default align threshold
        target = (1048576 + rng.randint(1, 5000)) * 8 // bits
    target = max(1, target)
    rank = rng.choice([1, 1, 2, 2, 3])
    if rank == 1:
        return [target]
    if rank == 2:
        a = rng.choice([1, 2, 3, 5, 7])
        return [a, max(1, target // a)]
    a, b = rng.choice([1, 2, 3]), rng.choice([1, 3, 5])
    return [a, b, max(1, target // (a * b))]


def gen_model_spec(rng: random.Random, backend: str, tier: str) -> dict:
    graphs = rng.choice(GRAPH_SHAPES)
    n = rng.choice([1, 2, 3, 4, 5, 6, 6, 7, 8, 10, 12]) if rng.random() < 0.9 else rng.randint(13, 24)
    dtypes = list(DTYPES) if backend == "raw" else list(ST_DTYPES)
    inits: list[dict] = []
    used_names: set[tuple[str, str]] = set()
    huge_used = False
    ext_files = ["pre/w0.bin", "old.data", "pre.v1.0.bin"]
    weird_tname = rng.random() < (0.25 if backend == "raw" else 0.08)
    for i in range(n):
        g = rng.choice(graphs) if rng.random() < 0.6 else ""
        # names: unique per graph; for raw sibling graphs may reuse a name (no shadowing of outer scopes)
        for _ in range(20):
            name = rng.choice(["w", "b", "k", "t", "scale", "zp"]) + str(rng.randint(0, 30))
            if rng.random() < 0.1:
                name = rng.choice(["layer.0/weight", "a b", "ünï", "x:0", "q.1.2"]) + str(i)
            if backend == "st" or g == "":
                clash = any(nm == name for _, nm in used_names)
            else:
                clash = any(nm == name and (gg == g or gg == "" or gg.startswith(g + "/") or g.startswith(gg + "/"))
                            for gg, nm in used_names)
            if not clash:
                break
        else:
            name = f"u{i}"
        used_names.add((g, name))
        if inits and rng.random() < (0.12 if backend == "raw" else 0.05):
            # the same tensor object under another name
            src = rng.choice(inits)
            if src["kind"] != "string" and not src.get("raise"):
                inits.append(dict(src, g=g, name=name, uid=i, also_input=False, typed=rng.random() < 0.5))
                continue
        # the 2-bit types (and FLOAT8E8M0 under safetensors) currently trip known defects that end a
        # case early, so they are drawn less often than the rest - but still in every shard
        weights = [0.35 if d in ("INT2", "UINT2") or (backend == "st" and d == "FLOAT8E8M0") else 1.0 for d in dtypes]
        dtype = rng.choices(dtypes, weights)[0]
        if rng.random() < 0.25:
            dtype = rng.choice(["INT4", "UINT4", "FLOAT4E2M1", "FLOAT", "FLOAT16", "INT64"])
        kind = rng.choice(["array", "array", "array_f", "lazy", "lazy_cache", "packed", "proto_raw",
                           "proto_typed", "ext_same", "ext_other", "ext_other", "string"])
        if kind == "packed" and DTYPES[dtype][0] >= 8:
            dtype = rng.choice(["INT4", "UINT4", "FLOAT4E2M1", "INT2", "UINT2"])
        if kind == "proto_typed" and dtype not in TYPED_FIELD:
            dtype = rng.choice(list(TYPED_FIELD))
        if kind == "string" and rng.random() < 0.5:
            kind = "array"
        r = rng.random()
        size_class = ("zero" if r < (0.08 if backend == "raw" else 0.04) else "scalar" if r < 0.12 else "tiny" if r < 0.35 else
                      "small" if r < 0.80 else "mid" if r < 0.93 else "large" if r < 0.985 else "huge")
        if size_class == "huge":
            if huge_used or tier == "quick" and rng.random() < 0.5:
                size_class = "mid"
            huge_used = True
        spec: dict[str, Any] = {
            "uid": i, "obj": i, "g": g, "name": name, "kind": kind, "dtype": dtype,
            "dseed": rng.randint(0, 1 << 30), "tname": "same", "typed": rng.random() < 0.5,
            "also_input": g == "" and rng.random() < 0.08,
        }
        if kind == "string":
            spec["dtype"] = "STRING"
            cnt = rng.choice([0, 1, 2, 3, 5])
            spec["shape"] = [cnt]
            spec["strings"] = [rng.choice(["", "a", "héllo", "x" * rng.randint(0, 40)]) for _ in range(cnt)]
        else:
            spec["shape"] = _gen_shape(rng, dtype, size_class)
        if weird_tname and rng.random() < 0.5 and kind not in ("string",):
            # ("swap" - a tensor named like *another* initializer - is supported by the builder for
            # hand-made witnesses but not drawn: under the safetensors backend its symptoms are too
            # varied to key a finding by, and "other"/"none" reach the same code)
            spec["tname"] = rng.choice(["none", "other"])
            if kind.startswith("ext") and spec["tname"] == "none":
                spec["tname"] = "other"
        if kind in ("array", "lazy", "lazy_cache") and DTYPES[dtype][1] is None and DTYPES[dtype][0] >= 8 \
                and dtype != "BOOL":
            spec["mlview"] = rng.random() < 0.5
        if kind == "ext_other":
            spec["ext_file"] = rng.choice(ext_files)
            spec["ext_whole"] = rng.random() < 0.15
            if spec["ext_whole"]:
                spec["ext_file"] = f"pre/alone{i}.bin"
        inits.append(spec)
    return {"graphs": list(graphs), "inits": inits}


def _pick_threshold(rng: random.Random, sizes: list[int]) -> int | None:
    pos = sorted(s for s in sizes)
    r = rng.random()
    if r < 0.10:
        return None  # omitted: documented default 256
    if r < 0.30:
        return 0
    if r < 0.38:
        return 1
    if r < 0.58 and pos:
        return pos[len(pos) // 2]  # median = an exact tensor size (boundary)
    if r < 0.72 and pos:
        return max(0, rng.choice(pos) + rng.choice([-1, 0, 1]))
    if r < 0.80:
        return 1 << 40
    return rng.choice([8, 64, 100, 256, 1024])


def gen_config(rng: random.Random, spec: dict, backend: str) -> dict:
    sizes = [nbytes_of(s["dtype"], s["shape"]) for s in spec["inits"] if s["kind"] != "string"]
    cfg: dict[str, Any] = {"backend": backend, "opts": {}, "callback": None, "invalid": None,
                           "fail": None, "cwd": rng.random() < 0.12, "resave": None}
    cfg["model_rel"] = rng.choice(["m.onnx", "m.onnx", "model.fp16.onnx", "sub/dir/m.onnx",
                                   "net.v2.1.onnx", "a.b/model.textproto"])
    opts = cfg["opts"]
    thr = _pick_threshold(rng, sizes)
    if thr is not None:
        opts["size_threshold_bytes"] = thr
    tot = sum(sizes) or 1
    big = max(sizes, default=1) or 1

    def pick_shard() -> int | None:
        r = rng.random()
        if r < 0.35:
            return None
        if r < 0.42:
            return 1
        if r < 0.55:
            return max(1, big - rng.choice([1, 2, 7]))
        if r < 0.70:
            return max(1, tot // 2)
        if r < 0.85 and sizes:
            k = rng.randint(1, len(sizes))
            return max(1, sum(sizes[:k]) + rng.choice([-1, 0, 0, 1]))
        if r < 0.92:
            return 1 << 40
        return rng.choice([4096, 8192, 65536, 70000])

    shard = pick_shard()
    if shard is not None:
        opts["max_shard_size_bytes"] = shard
    if rng.random() < 0.4:
        cfg["callback"] = "record"
    if backend == "raw":
        cfg["ext_rel"] = rng.choice(["m.data", "m.onnx.data", "model.fp16.data", "w.v1.0.data",
                                     "sub/dir/w.bin", "weights", "a.b/c.d.data", "x.tar.gz"])
        if rng.random() < 0.6:
            opts["alignment"] = rng.choice([None, 1, 512, 4096, 4096, 5000, 65536])
            r = rng.random()
            if r < 0.3:
                opts["align_threshold"] = 0
            elif r < 0.6 and sizes:
                opts["align_threshold"] = max(0, rng.choice(sizes) + rng.choice([-1, 0, 1]))
            elif r < 0.75:
                opts["align_threshold"] = rng.choice([16, 256, 4096])
        if rng.random() < 0.65:
            opts["max_workers"] = rng.choice([None, 1, 2, 2, 4, 8])
        if rng.random() < 0.3:
            opts["max_in_flight_bytes"] = rng.choice([1, 64, 4096, 1 << 40])
    # the raise path ---------------------------------------------------------------------------
    r = rng.random()
    if r < 0.07:
        cfg["callback"] = {"raise_at": rng.randint(0, max(0, len(sizes) - 1)), "base": rng.random() < 0.25}
    elif r < 0.10:
        cfg["fail"] = rng.choice(["path_is_dir", "bad_format"])
    elif r < 0.13:
        if backend == "raw":
            cfg["invalid"] = rng.choice([["max_workers", 0], ["alignment", 0], ["align_threshold", -1],
                                         ["max_shard_size_bytes", 0], ["max_in_flight_bytes", 0],
                                         ["external_data", "ABS"]])
        else:
            cfg["invalid"] = rng.choice([["format", "nosuchformat"]])
    elif r < 0.22:
        cands = [s for s in spec["inits"] if s["kind"] in ("lazy", "lazy_cache") and s["obj"] == s["uid"]]
        if cands:
            tgt = rng.choice(cands)
            tgt["raise"] = rng.choice(["exc", "exc", "base"])
    if rng.random() < 0.3 and not cfg["fail"] and not cfg["invalid"]:
        re_opts: dict[str, Any] = {}
        t2 = _pick_threshold(rng, sizes)
        if t2 is not None:
            re_opts["size_threshold_bytes"] = t2
        s2 = pick_shard()
        if s2 is not None and rng.random() < 0.5:
            re_opts["max_shard_size_bytes"] = s2
        if "max_shard_size_bytes" in opts and rng.random() < 0.5:
            # a nearby limit: often the same number of shard files with another partition (in-place re-sharding)
            re_opts["max_shard_size_bytes"] = max(1, int(opts["max_shard_size_bytes"] * rng.choice([0.6, 0.8, 1.25, 1.6])))
        if backend == "raw":
            if rng.random() < 0.4:
                re_opts["alignment"] = rng.choice([1, 4096, 65536])
                re_opts["align_threshold"] = rng.choice([0, 64])
            if rng.random() < 0.5:
                re_opts["max_workers"] = rng.choice([1, 2, 4])
        cfg["resave"] = {"same_ext": rng.random() < 0.6, "opts": re_opts, "fresh": rng.random() < 0.7,
                         "backend": backend if rng.random() < 0.8 else ("st" if backend == "raw" else "raw")}
    return cfg


# ------------------------------------------------------------------------------------------
# steering: in-place re-save that keeps the data file names but moves tensors between the files
# ------------------------------------------------------------------------------------------
def declaration_order(spec: dict) -> list[dict]:
    """Initializer specs in the order a serialized model declares them."""
    rank = {g: i for i, g in enumerate(dfs_order(list(spec["graphs"])))}
    return sorted(spec["inits"], key=lambda s: rank.get(s["g"], 0))   # stable: list order inside a graph


def plan_shards(sizes: list[int], thr: int, limit: int | None) -> dict[int, int]:
    """The harness' own picture of 'tensors not smaller than ``thr`` in declaration order, a new file
    whenever the limit would be exceeded': position -> file number.  It only *steers* the
    generator towards configurations of a wanted shape; no verdict is derived from it (whether a
    case really has that shape is counted from what was observed on disk)."""
    out: dict[int, int] = {}
    shard, cur = 0, 0
    for i, n in enumerate(sizes):
        if n < thr:
            continue
        if limit is not None and cur and cur + n > limit:
            shard, cur = shard + 1, 0
        out[i] = shard
        cur += n
    return out


def steer_inplace_repartition(rng: random.Random, spec: dict, cfg: dict) -> bool:
    """For a safetensors -> safetensors re-save: choose (threshold, shard limit) of both saves so
    that both produce the same number (>= 2) of shard files - hence the same file names, i.e. the
    second save replaces the very files the loaded model still reads from - while at least one
    tensor has to move to another file (boundary earlier or later, through the limit or through
    tensors entering/leaving the external set).  Call after ``normalise``; only option values
    change.  Returns whether such a pair of configurations was found."""
    re = cfg.get("resave")
    if not re or cfg["backend"] != "st" or re["backend"] != "st":
        return False
    if isinstance(cfg.get("callback"), dict) or cfg.get("fail") or cfg.get("invalid") or \
            any(s.get("raise") for s in spec["inits"]):
        return False   # the first save is meant to raise: there is nothing to re-save
    order = declaration_order(spec)
    sizes = [nbytes_of(s["dtype"], s["shape"]) for s in order if s["kind"] != "string"]
    strings = [sum(len(x.encode()) for x in s["strings"]) for s in order if s["kind"] == "string"]
    min_thr = max(strings) + 1 if strings else 0     # STRING tensors stay below every threshold
    if sum(1 for n in sizes if n > 0) < 2:
        return False
    opts0, opts1 = cfg["opts"], re["opts"]
    positive = sorted({n for n in sizes if n > 0})
    thr_pool = {opts0.get("size_threshold_bytes", 256), opts1.get("size_threshold_bytes", 256), 0, 1,
                positive[0], positive[len(positive) // 2], positive[len(positive) // 2] + 1}
    thr_pool = sorted(t for t in thr_pool if t >= min_thr) or [min_thr]

    def limits_for(thr: int) -> list[int]:
        kept = [n for n in sizes if n >= thr]
        sums = set()
        for i in range(len(kept)):
            acc = 0
            for j in range(i, len(kept)):
                acc += kept[j]
                sums.update((acc - 1, acc, acc + 1))
        return sorted(x for x in sums if x >= 1)

    for _ in range(6):
        # first save: keep what was drawn when it already yields >= 2 files
        thr0 = opts0.get("size_threshold_bytes", 256)
        lim0 = opts0.get("max_shard_size_bytes")
        if thr0 < min_thr or len(set(plan_shards(sizes, thr0, lim0).values())) < 2 or rng.random() < 0.25:
            thr0 = rng.choice(thr_pool)
            cands = [x for x in limits_for(thr0) if len(set(plan_shards(sizes, thr0, x).values())) >= 2]
            if not cands:
                continue
            lim0 = rng.choice(cands)
        p0 = plan_shards(sizes, thr0, lim0)
        files = len(set(p0.values()))
        # second save: same number of files, some tensor in another file
        thr1_first = opts1.get("size_threshold_bytes", 256)
        thrs = [t for t in ([thr1_first] if thr1_first >= min_thr and rng.random() < 0.6 else []) + thr_pool]
        found = []
        for thr1 in thrs:
            lims = limits_for(thr1)
            if len(lims) > 120:
                lims = rng.sample(lims, 120)
            for lim1 in lims:
                if (thr1, lim1) == (thr0, lim0):
                    continue
                p1 = plan_shards(sizes, thr1, lim1)
                if len(set(p1.values())) == files and any(p1[i] != p0[i] for i in p1 if i in p0):
                    found.append((thr1, lim1))
            if found and rng.random() < 0.7:
                break
        if not found:
            continue
        thr1, lim1 = rng.choice(found)
        opts0["size_threshold_bytes"], opts0["max_shard_size_bytes"] = thr0, lim0
        opts1["size_threshold_bytes"], opts1["max_shard_size_bytes"] = thr1, lim1
        return True
    return False


def st_data_rel(model_rel: str) -> str:
    """Where save_safetensors documents it puts the data: '<model stem>.safetensors'."""
    base = os.path.basename(model_rel)
    stem = base.rsplit(".", 1)[0] if "." in base else base
    return stem + ".safetensors"


def normalise(spec: dict, cfg: dict) -> None:
    """Keep the case inside the judged domain (in place): STRING tensors only below the
    threshold; safetensors: dtype table, globally unique names; ext_same needs a target."""
    backend = cfg["backend"]
    steps = [(backend, cfg["opts"].get("size_threshold_bytes", 256))]
    if cfg.get("resave"):
        steps.append((cfg["resave"]["backend"], cfg["resave"]["opts"].get("size_threshold_bytes", 256)))

    def string_ok(total: int) -> bool:
        return all(total < thr if b == "st" else total <= thr for b, thr in steps)

    seen: set[str] = set()
    for s in spec["inits"]:
        if s["kind"] == "string":
            if not string_ok(sum(len(x.encode()) for x in s["strings"])):
                s["strings"] = ["" for _ in s["strings"]]
                if not string_ok(0):
                    s.update(kind="array", dtype="FLOAT", shape=[len(s["strings"]) + 1])
                    s.pop("strings")
        needs_st = backend == "st" or (cfg.get("resave") and cfg["resave"]["backend"] == "st")
        if needs_st:
            if s["dtype"] == "COMPLEX128":
                s["dtype"] = "COMPLEX64"
            if s["name"] in seen:
                s["name"] = f"{s['name']}__{s['uid']}"
            seen.add(s["name"])


# ------------------------------------------------------------------------------------------
# building real objects
# ------------------------------------------------------------------------------------------
class Built:
    def __init__(self) -> None:
        self.model: ir.Model | None = None
        self.expected: list[dict] = []      # declaration order: {g,name,dtype,shape,bytes|strings,uid,nbytes}
        self.lazy_calls: dict[int, int] = {}
        self.base_dir = ""


def effective_tname(s: dict, all_inits: list[dict]) -> str:
    mode = s.get("tname", "same")
    if mode == "swap" and not any(o["uid"] == s.get("tname_target") and o["name"] != s["name"] for o in all_inits):
        return "other"
    return mode


def _tensor_name(s: dict, all_inits: list[dict]) -> str | None:
    mode = s.get("tname", "same")
    if mode == "same":
        return s["name"]
    if mode == "none":
        return None
    if mode == "swap":   # named like another initializer of the model (e.g. after values were renamed)
        for o in all_inits:
            if o["uid"] == s.get("tname_target") and o["name"] != s["name"]:
                return o["name"]
    return f"tensor_{s['uid']}_other"


def build(spec: dict, cfg: dict, base_dir: str) -> Built:
    """Write pre-existing external files and construct the model.  ``base_dir`` is the directory
    of the model file ('' in cwd mode, with cwd already set by the caller)."""
    built = Built()
    built.base_dir = base_dir
    inits = spec["inits"]
    dt = ir.DataType
    # -- layout of pre-existing external data files ----------------------------------------
    ext_same_rel = cfg.get("ext_rel") if cfg["backend"] == "raw" else st_data_rel(cfg["model_rel"])
    ext_layout: dict[str, list[tuple[dict, bytes]]] = {}
    payload: dict[int, bytes | None] = {}
    for s in inits:
        if s["obj"] in payload:
            continue
        if s["kind"] == "string":
            payload[s["obj"]] = None
            continue
        data = make_bytes(s["dtype"], s["shape"], s["dseed"], s["kind"])
        payload[s["obj"]] = data
        if s["kind"] in ("ext_same", "ext_other"):
            rel = ext_same_rel if s["kind"] == "ext_same" else s["ext_file"]
            ext_layout.setdefault(rel, []).append((s, data))
    ext_pos: dict[int, tuple[str, int | None, int | None]] = {}
    for rel, items in ext_layout.items():
        path = os.path.join(base_dir, rel)
        os.makedirs(os.path.dirname(path) or ".", exist_ok=True)
        rng = random.Random(f"c07ext:{rel}:{items[0][0]['dseed']}")
        # not in declaration order on purpose, with gaps
        order = list(range(len(items)))
        rng.shuffle(order)
        blob = bytearray()
        whole = len(items) == 1 and items[0][0].get("ext_whole") and len(items[0][1]) > 0
        for idx in order:
            s, data = items[idx]
            if not whole:
                blob += rng.randbytes(rng.choice([0, 0, 1, 3, 16, 100]))
            ext_pos[s["obj"]] = (rel, None if whole else len(blob), None if whole else len(data))
            blob += data
        with open(path, "wb") as f:
            f.write(bytes(blob))

    # -- tensors, one object per obj id -----------------------------------------------------
    tensors: dict[int, Any] = {}

    def make_tensor(s: dict):
        dtype, shape, kind = s["dtype"], s["shape"], s["kind"]
        tname = _tensor_name(s, inits)
        data = payload[s["obj"]]
        if kind == "string":
            return ir.StringTensor([x.encode() for x in s["strings"]], shape=ir.Shape(shape), name=tname)
        irdt = dt[dtype]
        if kind in ("array", "array_f"):
            arr = numpy_from_bytes(data, dtype, shape, bool(s.get("mlview")))
            if kind == "array_f" and len(shape) >= 2:
                arr = np.asfortranarray(arr)
            return ir.Tensor(arr, dtype=irdt, name=tname)
        if kind in ("lazy", "lazy_cache"):
            obj = s["obj"]
            built.lazy_calls[obj] = 0
            mode = s.get("raise")

            def func(data=data, dtype=dtype, shape=shape, mlview=bool(s.get("mlview")), obj=obj, mode=mode):
                built.lazy_calls[obj] += 1
                if mode == "exc":
                    raise Injected(f"lazy tensor {obj} refuses to materialise")
                if mode == "base":
                    raise InjectedBase(f"lazy tensor {obj} refuses to materialise")
                return ir.Tensor(numpy_from_bytes(data, dtype, shape, mlview), dtype=dt[dtype])

            return ir.LazyTensor(func, dtype=irdt, shape=ir.Shape(shape), cache=kind == "lazy_cache",
                                 name=tname)
        if kind == "packed":
            return ir.PackedTensor(np.frombuffer(data, dtype=np.uint8), irdt, shape=list(shape), name=tname)
        if kind in ("proto_raw", "proto_typed"):
            proto = onnx.TensorProto()
            if tname is not None:
                proto.name = tname
            proto.data_type = int(irdt.value)
            proto.dims.extend(shape)
            field = TYPED_FIELD.get(dtype) if kind == "proto_typed" else None
            if field is None:
                proto.raw_data = data
            else:
                arr = numpy_from_bytes(data, dtype, shape, False).reshape(-1)
                if dtype == "UINT32":
                    arr = arr.astype(np.uint64)
                elif field == "int32_data" and dtype != "INT32":
                    arr = arr.astype(np.int32)
                getattr(proto, field).extend(arr.tolist())
            return ir.serde.TensorProtoTensor(proto)
        if kind in ("ext_same", "ext_other"):
            rel, off, length = ext_pos[s["obj"]]
            return ir.ExternalTensor(rel, off, length, irdt, shape=ir.Shape(shape),
                                     name=tname if tname is not None else s["name"], base_dir=base_dir)
        raise AssertionError(kind)

    per_graph: dict[str, list[ir.Value]] = {g: [] for g in spec["graphs"]}
    exp_by_graph: dict[str, list[dict]] = {g: [] for g in spec["graphs"]}
    for s in inits:
        if s["obj"] not in tensors:
            first = next(o for o in inits if o["obj"] == s["obj"])
            tensors[s["obj"]] = make_tensor(first)
        t = tensors[s["obj"]]
        g = s["g"] if s["g"] in per_graph else ""
        kwargs: dict[str, Any] = {}
        if s.get("typed") and s["dtype"] != "STRING":
            kwargs = {"type": ir.TensorType(dt[s["dtype"]]), "shape": ir.Shape(s["shape"])}
        v = ir.Value(name=s["name"], const_value=t, **kwargs)
        per_graph[g].append(v)
        rec = {"g": g, "name": s["name"], "dtype": s["dtype"], "shape": list(s["shape"]), "uid": s["uid"],
               "obj": s["obj"], "kind": s["kind"], "raise": next(o for o in inits if o["obj"] == s["obj"]).get("raise"), "tname": s.get("tname", "same")}
        if s["kind"] == "string":
            rec["strings"] = [x.encode() for x in s["strings"]]
            rec["nbytes"] = sum(len(x) for x in rec["strings"])
        else:
            rec["bytes"] = payload[s["obj"]]
            rec["nbytes"] = len(rec["bytes"])
        rec["also_input"] = bool(s.get("also_input")) and g == ""
        exp_by_graph[g].append(rec)

    # -- graphs, innermost first ---------------------------------------------------------------
    x = ir.Value(name="x", type=ir.TensorType(dt.FLOAT), shape=ir.Shape([2]))
    cond = ir.Value(name="cond", type=ir.TensorType(dt.BOOL), shape=ir.Shape([]))
    graphs = set(spec["graphs"])

    def make_graph(path: str) -> ir.Graph:
        nodes = []
        prefix = (path + "/") if path else ""
        tag = path.replace("/", "_").replace(".", "") or "main"
        if prefix + "then_branch" in graphs:
            gt, ge = make_graph(prefix + "then_branch"), make_graph(prefix + "else_branch")
            nodes.append(ir.Node("", "If", [cond], [ir.AttrGraph("then_branch", gt), ir.AttrGraph("else_branch", ge)],
                                 num_outputs=1, name=f"if_{tag}"))
            nodes[-1].outputs[0].name = f"ifout_{tag}"
        if prefix + "branches.0" in graphs:
            gs = [make_graph(prefix + "branches.0"), make_graph(prefix + "branches.1")]
            nodes.append(ir.Node("c07.test", "Multi", [x], [ir.AttrGraphs("branches", gs)], num_outputs=1,
                                 name=f"multi_{tag}"))
            nodes[-1].outputs[0].name = f"multiout_{tag}"
        ident = ir.Node("", "Identity", [x], num_outputs=1, name=f"id_{tag}")
        ident.outputs[0].name = f"out_{tag}"
        nodes.append(ident)
        ins = [cond, x] if path == "" else []
        if path == "":
            ins = ins + [v for v, r in zip(per_graph[path], exp_by_graph[path]) if r["also_input"]]
        return ir.Graph(ins, [ident.outputs[0]], nodes=nodes, initializers=per_graph[path],
                        opset_imports={"": 21, "c07.test": 1} if path == "" else None, name=f"g_{tag}")

    built.model = ir.Model(make_graph(""), ir_version=11, producer_name="vf-c07")
    for g in dfs_order(list(spec["graphs"])):
        built.expected.extend(exp_by_graph[g])
    return built


def walk_initializers(model: ir.Model) -> list[tuple[str, str, ir.Value]]:
    """Own pre-order DFS over (graph path, initializer name, value); path = attribute names."""
    out: list[tuple[str, str, ir.Value]] = []

    def visit(graph, path: str) -> None:
        for name, value in graph.initializers.items():
            out.append((path, name, value))
        for node in graph:
            for attr in node.attributes.values():
                if attr.is_ref():
                    continue
                if attr.type == ir.AttributeType.GRAPH:
                    visit(attr.value, (path + "/" if path else "") + attr.name)
                elif attr.type == ir.AttributeType.GRAPHS:
                    for i, g in enumerate(attr.value):
                        visit(g, (path + "/" if path else "") + f"{attr.name}.{i}")

    visit(model.graph, "")
    return out
