"""C12 hash-seed child: ``PYTHONHASHSEED=<n> python -m vfpy.c12_child`` reads a JSON list of cases
on stdin, builds each (variant A, exactly as the parent did), sorts it, and prints the outcome
(exception kind, final order of every graph) as JSON on stdout."""

from __future__ import annotations

import json
import os
import sys

from vfpy import c12_build


def main() -> int:
    cases = json.load(sys.stdin)
    out = []
    for case in cases:
        r = c12_build.execute(case, "A", 0, resort=False)
        out.append(c12_build.outcome(r))
    json.dump({"hashseed": os.environ.get("PYTHONHASHSEED"), "results": out}, sys.stdout)
    return 0


if __name__ == "__main__":
    sys.exit(main())
