"""pytest plugin: false-alarm audit of the C01 invariant walker on the repository's OWN tests.

After every test of the repository suite the live IR graphs are walked (gc) and the C01 clauses
are evaluated.  A clause that fires here is either too strict (the tests build that state on
purpose) or a defect the tests do not assert; either way it must be read before the clause is
trusted.  Usage: see tools/audit_invariants.sh.  Findings are appended to $VF_AUDIT_OUT."""
import gc
import json
import os

import onnx_ir as ir

from vfpy import invariants
from vfpy.world import World

_seen = set()
_before: set[int] = set()


def pytest_runtest_setup(item):
    gc.collect()
    _before.clear()
    _before.update(id(o) for o in gc.get_objects() if isinstance(o, ir.Graph))


def pytest_runtest_teardown(item, nextitem):
    # only graphs created by this test: leftovers of earlier tests are not this test's business
    graphs = [o for o in gc.get_objects() if isinstance(o, ir.Graph) and id(o) not in _before]
    if not graphs:
        return
    w = World()
    for g in graphs:
        try:
            g.inputs, g.outputs, g.initializers, len(g)  # noqa: B018 - skip half-built graphs
        except Exception:  # noqa: BLE001
            continue
        w.add_graph(g)
    try:
        w.discover()
        bad = invariants.check_world(w)
    except Exception as e:  # noqa: BLE001
        bad = [("walker-error", repr(e))]
    out = os.environ.get("VF_AUDIT_OUT")
    if bad and out:
        clauses = sorted({c for c, _ in bad})
        key = (item.nodeid.split("::")[0], tuple(clauses))
        if key in _seen:
            return
        _seen.add(key)
        with open(out, "a") as f:
            f.write(json.dumps({"test": item.nodeid, "clauses": clauses, "first": bad[0][1][:300]}) + "\n")
