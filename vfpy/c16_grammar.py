"""C16 helper: strings of the documented dimension-expression grammar and their standard meaning.

Nothing in this module imports ``onnx_ir`` or SymPy.  The *meaning* of a string is obtained from
Python itself: the text is parsed by ``ast.parse`` (so precedence and associativity are the
language's, not the harness's), the resulting AST is checked to use only node types of the
documented grammar

    expr    -> term (('+' | '-') term)*
    term    -> power (('*' | '/' | '//' | '%') power)*
    power   -> unary ('**' power)?
    unary   -> '-' unary | primary
    primary -> NUMBER | IDENT | IDENT '(' args ')' | '(' expr ')'
    args    -> expr (',' expr)*

and is then evaluated with exact ``fractions.Fraction`` operands (Python's own ``+ - * / // %``
on Fractions; ``**`` through an exact rational power so that an irrational result is *out of
domain* rather than a float).

Two lexical liberties of the documented tokenizer that Python does not share are handled by
rendering two texts from one token list: identifiers (which may contain dots or be Python
keywords) are replaced by aliases ``v0, v1, ...`` and decimal literals are normalised
(``007`` -> ``7``) in the text given to Python.
"""

from __future__ import annotations

import ast
import math
import re
from fractions import Fraction
from typing import Iterator

BINOPS = ("+", "-", "*", "/", "//", "%", "**")
# functions of the documented grammar (docstring: max, min, floor, sqrt) plus the spellings the
# parser's own table/error message lists (Max, Min, mod, Mod) - the printer emits those.
FUNCS_DOCUMENTED = ("max", "min", "floor", "sqrt")
FUNCS_ALLOWED = ("max", "Max", "min", "Min", "floor", "sqrt", "mod", "Mod")
# extra names understood by the oracle for *diagnosis only* (text printed by the library)
FUNCS_DIAGNOSTIC = ("ceiling", "Abs", "sign")

MAX_BITS = 512  # magnitude cap for exact powers; larger -> "too large", skipped


class OutOfDomain(Exception):
    """Exact value does not exist as a rational: division by zero, irrational/complex power."""


class TooLarge(Exception):
    """Value too large to hand to SymPy safely."""


class NotInGrammar(Exception):
    pass


# ------------------------------------------------------------------------------------------------
# exact arithmetic
# ------------------------------------------------------------------------------------------------
def _iroot(n: int, q: int) -> int | None:
    """Exact integer q-th root of n >= 0, or None."""
    if n < 2:
        return n
    r = round(n ** (1.0 / q)) if n.bit_length() < 900 else 1 << (n.bit_length() // q)
    # Newton refine
    for _ in range(200):
        nr = ((q - 1) * r + n // (r ** (q - 1))) // q
        if abs(nr - r) <= 0:
            break
        r = nr
    for c in (r - 1, r, r + 1):
        if c >= 0 and c**q == n:
            return c
    return None


def exact_pow(b: Fraction, e: Fraction) -> Fraction:
    if e.denominator == 1:
        n = int(e)
        if b == 0:
            if n < 0:
                raise OutOfDomain("0 ** negative")
            return Fraction(1 if n == 0 else 0)
        if b == 1:
            return Fraction(1)
        if b == -1:
            return Fraction(1 if n % 2 == 0 else -1)
        size = max(b.numerator.bit_length(), b.denominator.bit_length())
        if abs(n) > 4096 or size * abs(n) > MAX_BITS:
            raise TooLarge(f"{b}**{n}")
        return Fraction(b) ** n
    # fractional exponent p/q
    if b < 0:
        raise OutOfDomain("negative base, fractional exponent")
    if b == 0:
        if e > 0:
            return Fraction(0)
        raise OutOfDomain("0 ** negative")
    p, q = e.numerator, e.denominator
    if q > 64:
        raise OutOfDomain("root index too large to be exact")
    rn, rd = _iroot(b.numerator, q), _iroot(b.denominator, q)
    if rn is None or rd is None:
        raise OutOfDomain("irrational power")
    return exact_pow(Fraction(rn, rd), Fraction(p))


def exact_sqrt(x: Fraction) -> Fraction:
    return exact_pow(x, Fraction(1, 2))


def _fn_max(*a):
    return max(a)


def _fn_min(*a):
    return min(a)


def _fn_floor(x):
    return Fraction(math.floor(x))


def _fn_mod(a, b):
    if b == 0:
        raise OutOfDomain("mod by zero")
    return a % b


def _fn_ceiling(x):
    return Fraction(math.ceil(x))


def _fn_abs(x):
    return abs(x)


def _fn_sign(x):
    return Fraction((x > 0) - (x < 0))


_FUNC_IMPL = {
    "max": (_fn_max, 1, 99), "Max": (_fn_max, 1, 99),
    "min": (_fn_min, 1, 99), "Min": (_fn_min, 1, 99),
    "floor": (_fn_floor, 1, 1),
    "sqrt": (exact_sqrt, 1, 1),
    "mod": (_fn_mod, 2, 2), "Mod": (_fn_mod, 2, 2),
    "ceiling": (_fn_ceiling, 1, 1),
    "Abs": (_fn_abs, 1, 1),
    "sign": (_fn_sign, 1, 1),
}


def _binop(op: ast.operator, l: Fraction, r: Fraction) -> Fraction:
    if isinstance(op, ast.Add):
        return l + r
    if isinstance(op, ast.Sub):
        return l - r
    if isinstance(op, ast.Mult):
        v = l * r
        if max(v.numerator.bit_length(), v.denominator.bit_length()) > 4 * MAX_BITS:
            raise TooLarge("product")
        return v
    if isinstance(op, ast.Div):
        if r == 0:
            raise OutOfDomain("division by zero")
        return l / r
    if isinstance(op, ast.FloorDiv):
        if r == 0:
            raise OutOfDomain("floor division by zero")
        return Fraction(l // r)
    if isinstance(op, ast.Mod):
        if r == 0:
            raise OutOfDomain("modulo by zero")
        return l % r
    if isinstance(op, ast.Pow):
        return exact_pow(l, r)
    raise NotInGrammar(type(op).__name__)


def check_ast(node: ast.AST, funcs=FUNCS_ALLOWED) -> None:
    """Raise NotInGrammar unless the Python AST uses only constructs of the documented grammar."""
    if isinstance(node, ast.Expression):
        return check_ast(node.body, funcs)
    if isinstance(node, ast.Constant):
        if type(node.value) is int and node.value >= 0:
            return
        raise NotInGrammar(f"constant {node.value!r}")
    if isinstance(node, ast.Name):
        return
    if isinstance(node, ast.UnaryOp) and isinstance(node.op, ast.USub):
        return check_ast(node.operand, funcs)
    if isinstance(node, ast.BinOp) and isinstance(
        node.op, (ast.Add, ast.Sub, ast.Mult, ast.Div, ast.FloorDiv, ast.Mod, ast.Pow)
    ):
        check_ast(node.left, funcs)
        return check_ast(node.right, funcs)
    if isinstance(node, ast.Call) and isinstance(node.func, ast.Name) and not node.keywords:
        if node.func.id not in funcs:
            raise NotInGrammar(f"function {node.func.id}")
        _, lo, hi = _FUNC_IMPL[node.func.id]
        if not (lo <= len(node.args) <= hi):
            raise NotInGrammar(f"arity of {node.func.id}")
        for a in node.args:
            check_ast(a, funcs)
        return
    raise NotInGrammar(type(node).__name__)


def eval_ast(node: ast.AST, env: dict[str, Fraction]) -> Fraction:
    """Exact value of a checked AST.  Strict: every sub-expression is evaluated; TooLarge wins
    over OutOfDomain so that the caller never hands a huge constant power to SymPy."""
    if isinstance(node, ast.Expression):
        return eval_ast(node.body, env)
    if isinstance(node, ast.Constant):
        return Fraction(node.value)
    if isinstance(node, ast.Name):
        return Fraction(env[node.id])
    if isinstance(node, ast.UnaryOp):
        return -eval_ast(node.operand, env)
    if isinstance(node, (ast.BinOp, ast.Call)):
        kids = [node.left, node.right] if isinstance(node, ast.BinOp) else list(node.args)
        vals: list[Fraction] = []
        pending: Exception | None = None
        for k in kids:
            try:
                vals.append(eval_ast(k, env))
            except TooLarge:
                raise
            except OutOfDomain as exc:  # keep going: a later operand may be too large
                pending = pending or exc
        if pending is not None:
            raise pending
        if isinstance(node, ast.BinOp):
            return _binop(node.op, vals[0], vals[1])
        return Fraction(_FUNC_IMPL[node.func.id][0](*vals))
    raise NotInGrammar(type(node).__name__)


def python_meaning(pytext: str, funcs=FUNCS_ALLOWED) -> ast.Expression:
    """Parse with Python's own grammar and restrict to the documented grammar."""
    try:
        tree = ast.parse(pytext, mode="eval")
    except (SyntaxError, ValueError, RecursionError, MemoryError) as exc:
        raise NotInGrammar(f"python rejects: {exc}") from None
    check_ast(tree, funcs)
    return tree


# ------------------------------------------------------------------------------------------------
# token lists -> the two renderings
# ------------------------------------------------------------------------------------------------
# token = (kind, text); kinds: NUM ID FUNC OP LP RP COMMA
IDENT_POOL_TAME = ("N", "M", "K", "batch", "seq_len", "_d0", "x1", "H")
IDENT_POOL_ODD = ("a.b_1", "decoder_input_ids.45_dim_1", "if", "lambda", "is", "A.B.c")

# Symbol NAMES as a dimension of the workload.  Every name below is an identifier of the documented
# tokenizer (first character a letter - of any script - or '_', then letters, digits, '_' and '.');
# what a dimension is called must not matter to any evaluation, print or parse.
NAME_CLASSES: dict[str, tuple[str, ...]] = {
    "accented-latin": ("s\u00e9q", "\u00f1_2", "Gr\u00f6\u00dfe", "\u00e9", "largeur_\u00e9cran", "\u00c5"),
    "greek": ("\u03b2", "\u03a3x", "\u03b1\u03b2\u03b3", "\u03bb", "\u0394t_1"),
    "cjk": ("\u6279\u6b21", "\u9577\u3055_1", "\ubc30\uce58", "\u30d0\u30c3\u30c1", "\u5e8f\u5217\u957f\u5ea6"),
    "other-script": ("\u0434\u043b\u0438\u043d\u0430", "\u01c5", "\U0001d465", "\u05d0\u05d1", "x\u0663", "\u0637\u0648\u0644"),
    "digits-underscores": ("_", "__", "_1", "x_", "a1b2", "_0_", "x9", "a_1_b", "d0", "_9x_", "n__2"),
    "dotted": ("x.0", "a.b.c", "in.0.dim_1", "_.1", "onnx..Concat_3.out"),
    "long": ("x" * 300, "dim_" + "abc_" * 40 + "9", "L" + "0123456789" * 12),
    "function-name-other-case": ("MAX", "Floor", "MIN", "Ceil", "SQRT", "FLOOR", "Sign", "ABS", "mAx", "MOD", "Ceiling"),
    "function-name": ("max", "min", "floor", "mod", "sqrt", "ceiling", "abs", "sign", "Max", "Mod"),
    "sympy-special-name": ("E", "I", "S", "O", "Q", "pi", "oo", "zoo", "nan", "Symbol", "Integer", "gamma", "beta", "re", "im"),
    "python-keyword": ("None", "True", "False", "in", "not", "and", "lambda", "if", "is"),
}
_FUNCTION_NAMES_LOWER = frozenset(
    ("max", "min", "floor", "mod", "sqrt", "ceiling", "ceil", "abs", "sign")
)
_SYMPY_SPECIAL = frozenset(NAME_CLASSES["sympy-special-name"]) | {"N", "Rational", "Float", "Add", "Mul", "Pow"}


def name_class(name: str) -> str:
    """Class of an identifier, computed from the identifier itself (so that a replay names a
    mechanism the same way): what could make a tokenizer, a parser, a printer or SymPy treat it
    differently from 'N'."""
    import keyword

    if not name.isascii():
        return "non-ascii"
    if "." in name:
        return "dotted"
    if len(name) > 64:
        return "long"
    if name in ("max", "Max", "min", "Min", "floor", "sqrt", "mod", "Mod", "ceiling", "ceil", "Abs", "abs", "sign"):
        return "function-name"
    if name.lower() in _FUNCTION_NAMES_LOWER:
        return "function-name-other-case"
    if keyword.iskeyword(name):
        return "python-keyword"
    if name in _SYMPY_SPECIAL and name != "N":
        return "sympy-special-name"
    if name.startswith("_") or name.endswith("_") or "__" in name or any(c.isdigit() for c in name):
        return "digits-underscores"
    return "plain"


def name_classes(names) -> str:
    """Stable label for a set of names: their classes, the plain ones left out."""
    cls = sorted({name_class(n) for n in names} - {"plain"})
    return "+".join(cls) or "plain"


def tame_names(names) -> dict[str, str]:
    """name -> a plain ASCII stand-in (``nm0``, ``nm1`` ...), deterministic by sorted order."""
    return {n: f"nm{i}" for i, n in enumerate(sorted(set(names)))}


class TokenText:
    """One token list, rendered for the library's parser (real names, free whitespace, optional
    leading zeros) and for Python (aliases, normalised numbers)."""

    def __init__(self, tokens: list[tuple[str, str]]):
        self.tokens = tokens
        self.idents: list[str] = []
        for k, t in tokens:
            if k == "ID" and t not in self.idents:
                self.idents.append(t)
        self.alias = {name: f"v{i}" for i, name in enumerate(self.idents)}

    def python_text(self) -> str:
        out = []
        for k, t in self.tokens:
            if k == "ID":
                out.append(self.alias[t])
            elif k == "NUM":
                out.append(str(int(t)))
            else:
                out.append(t)
        return " ".join(out)

    def parser_text(self, rng=None) -> str:
        if rng is None:
            return _join_compact(self.tokens)
        out = []
        for k, t in self.tokens:
            out.append(t)
            out.append(rng.choice(("", "", " ", " ", "  ", "\t")))
        text = "".join(out).strip() if rng.random() < 0.8 else " " + "".join(out)
        return text

    def n_operators(self) -> int:
        return sum(1 for k, _ in self.tokens if k in ("OP", "FUNC"))


def _join_compact(tokens) -> str:
    out = []
    for k, t in tokens:
        if k == "OP" and t in ("+", "-", "*", "/", "//", "%", "**") and out and out[-1] not in ("(",) and not _prev_is_op(out):
            out.append(" " + t + " ")
        elif k == "COMMA":
            out.append(", ")
        else:
            out.append(t)
    return "".join(out).strip()


def _prev_is_op(out: list[str]) -> bool:
    return bool(out) and out[-1].strip() in BINOPS + ("-", ",")


def real_text_from_python(pytext: str, names: dict[str, str]) -> str:
    """Map the aliases of a Python-side text (e.g. produced by ``ast.unparse``) back to names."""
    return re.sub(r"[A-Za-z_][A-Za-z0-9_]*", lambda m: names.get(m.group(0), m.group(0)), pytext)


# ------------------------------------------------------------------------------------------------
# random derivations of the documented grammar
# ------------------------------------------------------------------------------------------------
class Deriver:
    def __init__(self, rng, idents: list[str], max_nodes: int = 14, funcs=FUNCS_ALLOWED):
        self.rng = rng
        self.idents = idents
        self.budget = max_nodes
        self.funcs = funcs
        self.out: list[tuple[str, str]] = []

    def derive(self) -> list[tuple[str, str]]:
        self.expr(0)
        return self.out

    def _spend(self) -> bool:
        self.budget -= 1
        return self.budget > 0

    def expr(self, d: int) -> None:
        self.term(d)
        while self.budget > 0 and self.rng.random() < (0.45 if d < 3 else 0.15):
            self._spend()
            self.out.append(("OP", self.rng.choice("+-")))
            self.term(d)

    def term(self, d: int) -> None:
        self.power(d)
        while self.budget > 0 and self.rng.random() < (0.45 if d < 3 else 0.15):
            self._spend()
            self.out.append(("OP", self.rng.choice(("*", "/", "//", "%", "*", "//", "%"))))
            self.power(d)

    def power(self, d: int, in_exponent: bool = False) -> None:
        self.unary(d, small=in_exponent)
        if self.budget > 0 and self.rng.random() < (0.22 if not in_exponent else 0.3):
            self._spend()
            self.out.append(("OP", "**"))
            self.power(d + 1, in_exponent=True)

    def unary(self, d: int, small: bool = False) -> None:
        if self.budget > 0 and self.rng.random() < 0.17:
            self._spend()
            self.out.append(("OP", "-"))
            self.unary(d, small)
            return
        self.primary(d, small)

    def number(self, small: bool) -> None:
        r = self.rng
        if small:
            v = r.choice((0, 1, 2, 2, 2, 3, 3))
        else:
            v = r.choice((0, 1, 2, 2, 3, 3, 4, 5, 6, 7, 8, 9, 10, 12, 16, 64, 100))
        text = str(v)
        if r.random() < 0.04:
            text = "0" + text
        self.out.append(("NUM", text))

    def primary(self, d: int, small: bool = False) -> None:
        r = self.rng
        x = r.random()
        if self.budget <= 0 or d >= 5:
            x = x * 0.7
        if small and x > 0.25:
            x = x * 0.6
        if x < 0.30:
            self.number(small)
        elif x < 0.70:
            self.out.append(("ID", r.choice(self.idents)))
        elif x < 0.85:
            self._spend()
            self.out.append(("LP", "("))
            self.expr(d + 1)
            self.out.append(("RP", ")"))
        else:
            self._spend()
            fn = r.choice(self.funcs)
            lo, hi = _FUNC_IMPL[fn][1], _FUNC_IMPL[fn][2]
            n = lo if hi == lo else r.choice((2, 2, 2, 3))
            self.out.append(("FUNC", fn))
            self.out.append(("LP", "("))
            for i in range(n):
                if i:
                    self.out.append(("COMMA", ","))
                self.expr(d + 1)
            self.out.append(("RP", ")"))


def random_string(rng, special_idents=None) -> TokenText:
    """``special_idents``: names that must be among the identifiers of the string (they replace
    the first identifiers drawn from the tame pool)."""
    n_id = rng.choice((1, 2, 2, 3, 3))
    pool = list(IDENT_POOL_TAME)
    rng.shuffle(pool)
    idents = pool[:n_id]
    if special_idents:
        special = list(special_idents)[:n_id]
        idents = special + idents[len(special):]
    elif rng.random() < 0.15:
        idents[rng.randrange(len(idents))] = rng.choice(IDENT_POOL_ODD)
    for _ in range(20):
        toks = Deriver(rng, idents, max_nodes=rng.choice((3, 5, 8, 12, 16))).derive()
        tt = TokenText(toks)
        if tt.n_operators() >= 1 and (not special_idents or any(n in tt.idents for n in special_idents)):
            return tt
    return tt


# ------------------------------------------------------------------------------------------------
# bounded exhaustive enumeration
# ------------------------------------------------------------------------------------------------
def _minus_distributions(slots: int, total: int) -> Iterator[tuple[int, ...]]:
    """All ways to put exactly ``total`` unary minuses on ``slots`` positions."""
    if slots == 1:
        yield (total,)
        return
    for first in range(total + 1):
        for rest in _minus_distributions(slots - 1, total - first):
            yield (first,) + rest


def enumerate_strings(max_ops: int, operands: tuple[str, ...]) -> Iterator[str]:
    """Every string   u0 x0 op1 u1 x1 ... opb ub xb   with x in ``operands``, op in the seven
    binary operators, u runs of unary minus, and b + sum|u| <= max_ops; and every such string
    with one pair of parentheses around a contiguous operand range i..j (optionally preceded by
    its own run of unary minuses, which also counts).  The whole-string range is only used with
    at least one minus in front of the parenthesis (otherwise it is the flat string again).
    Deterministic order."""
    from itertools import product

    for b in range(0, max_ops + 1):
        spare = max_ops - b
        for ops in product(BINOPS, repeat=b):
            for xs in product(operands, repeat=b + 1):
                # flat strings
                for total in range(0, spare + 1):
                    for dist in _minus_distributions(b + 1, total):
                        yield _render_enum(ops, xs, dist, None, 0)
                # one parenthesised range
                if b >= 1:
                    for i in range(0, b + 1):
                        for j in range(i + 1, b + 1):
                            whole = i == 0 and j == b
                            for total in range(0, spare + 1):
                                # slots: b+1 operands + 1 for the parenthesis itself
                                for dist in _minus_distributions(b + 2, total):
                                    if whole and dist[-1] == 0:
                                        continue
                                    yield _render_enum(ops, xs, dist[:-1], (i, j), dist[-1])


def _render_enum(ops, xs, minus, paren, paren_minus) -> str:
    parts: list[str] = []
    for idx, x in enumerate(xs):
        if idx:
            parts.append(" " + ops[idx - 1] + " ")
        if paren and idx == paren[0]:
            parts.append("-" * paren_minus + "(")
        parts.append("-" * minus[idx] + x)
        if paren and idx == paren[1]:
            parts.append(")")
    return "".join(parts)


def count_enumeration(max_ops: int, n_operands: int) -> int:
    return sum(1 for _ in enumerate_strings(max_ops, tuple(f"x{i}" for i in range(n_operands))))


# ------------------------------------------------------------------------------------------------
# shapes and shrinking on the Python AST (used to name the mechanism of a disagreement)
# ------------------------------------------------------------------------------------------------
_OPNAME = {
    ast.Add: "add", ast.Sub: "sub", ast.Mult: "mul", ast.Div: "div", ast.FloorDiv: "floordiv",
    ast.Mod: "mod", ast.Pow: "pow",
}


def ast_shape(node: ast.AST) -> str:
    """Operator skeleton in prefix form with leaves abstracted to '_'."""
    if isinstance(node, ast.Expression):
        return ast_shape(node.body)
    if isinstance(node, (ast.Constant, ast.Name)):
        return "_"
    if isinstance(node, ast.UnaryOp):
        return f"neg({ast_shape(node.operand)})"
    if isinstance(node, ast.BinOp):
        return f"{_OPNAME[type(node.op)]}({ast_shape(node.left)},{ast_shape(node.right)})"
    if isinstance(node, ast.Call):
        return f"{node.func.id}({','.join(ast_shape(a) for a in node.args)})"
    return type(node).__name__


NAMED_SHAPES = {
    "neg(pow(_,_))": "unary-minus-power",
}


def mechanism_name(shape: str) -> str:
    return NAMED_SHAPES.get(shape, shape)


def _expr_children(node: ast.AST) -> list[ast.AST]:
    if isinstance(node, ast.Expression):
        return [node.body]
    if isinstance(node, ast.BinOp):
        return [node.left, node.right]
    if isinstance(node, ast.UnaryOp):
        return [node.operand]
    if isinstance(node, ast.Call):
        return list(node.args)  # not node.func
    return []


def _sub_asts(node: ast.AST) -> Iterator[ast.AST]:
    """Proper sub-expressions, breadth first."""
    queue = _expr_children(node)
    while queue:
        n = queue.pop(0)
        yield n
        queue.extend(_expr_children(n))


def _replace(root: ast.AST, target: ast.AST, repl: ast.AST) -> ast.AST:
    import copy

    # copy while keeping identity mapping for target: transform in place on a deep copy
    memo: dict[int, object] = {}
    clone = copy.deepcopy(root, memo)
    tclone = memo.get(id(target))
    if tclone is None:
        return clone

    class R2(ast.NodeTransformer):
        def visit(self, n):
            if n is tclone:
                return copy.deepcopy(repl)
            return self.generic_visit(n)

    return R2().visit(clone)


def shrink_ast(body: ast.AST, fails, max_tests: int = 120) -> ast.AST:
    """Greedy structural shrink of a Python expression AST: hoist a descendant over the root,
    hoist a child over an inner node, or turn an inner node into a leaf, as long as
    ``fails(ast)`` stays true.  ``fails`` receives an ``ast.expr``."""
    tests = 0
    cur = body
    progress = True
    while progress and tests < max_tests:
        progress = False
        # 1. any proper sub-expression as the whole expression (smallest first is costly; take any)
        for sub in _sub_asts(cur):
            if isinstance(sub, (ast.Name, ast.Constant)):
                continue
            tests += 1
            if tests > max_tests:
                return cur
            if fails(sub):
                cur = sub
                progress = True
                break
        if progress:
            continue
        # 2. replace an inner node by one of its children, or by a leaf found below it
        for sub in _sub_asts(cur):
            if isinstance(sub, (ast.Name, ast.Constant)):
                continue
            cands = _expr_children(sub)
            for c in cands:
                cand = _replace(cur, sub, c)
                tests += 1
                if tests > max_tests:
                    return cur
                if fails(cand):
                    cur = cand
                    progress = True
                    break
            if progress:
                break
    return cur


# identifiers as the documented tokenizer reads them: a letter of any script or '_', then letters,
# digits, '_' and '.'  (``\\w`` on str patterns is Unicode-aware)
_IDENT_RE = re.compile(r"[^\W\d][\w.]*")


def alias_text(text: str, real_names) -> tuple[str, dict[str, str]]:
    """Replace the identifiers of ``text`` that are symbol names (possibly dotted, possibly Python
    keywords) by aliases Python can read.  Returns (python text, alias -> real name)."""
    real_names = set(real_names)
    names: dict[str, str] = {}
    back: dict[str, str] = {}

    def sub(m):
        w = m.group(0)
        if w not in real_names:
            return w
        if text[m.end():].lstrip().startswith("(") and w in _FUNC_IMPL:
            return w  # a function application, not the symbol of the same name
        if w not in back:
            back[w] = f"v{len(back)}"
            names[back[w]] = w
        return back[w]

    return _IDENT_RE.sub(sub, text), names


# ------------------------------------------------------------------------------------------------
# the documented grammar read literally (naming aid only)
# ------------------------------------------------------------------------------------------------
_TOKEN_RE = re.compile(r"\s*(?:([0-9]+)|([^\W\d][\w.]*)|(//|\*\*|[-+*/%(),]))")


def literal_grammar_value(text: str, env: dict[str, int]) -> Fraction:
    """Value of ``text`` when the *documented productions* are followed to the letter:
    ``power -> unary ('**' power)?`` and ``unary -> '-' unary | primary`` make a unary minus bind
    tighter than ``**`` (``-a ** b`` = ``(-a) ** b``), which is the one place where the literal
    grammar departs from standard arithmetic.  Used only to *name* a disagreement as that
    mechanism.  Raises OutOfDomain / TooLarge / NotInGrammar."""
    toks: list[tuple[str, str]] = []
    pos = 0
    text = text.rstrip()
    while pos < len(text):
        m = _TOKEN_RE.match(text, pos)
        if not m:
            raise NotInGrammar(f"token at {pos}")
        pos = m.end()
        if m.group(1) is not None:
            toks.append(("NUM", m.group(1)))
        elif m.group(2) is not None:
            toks.append(("ID", m.group(2)))
        else:
            toks.append(("OP", m.group(3)))
    i = 0

    def peek():
        return toks[i] if i < len(toks) else (None, None)

    def take():
        nonlocal i
        i += 1
        return toks[i - 1]

    def expr():
        v = term()
        while peek() in (("OP", "+"), ("OP", "-")):
            op = take()[1]
            r = term()
            v = v + r if op == "+" else v - r
        return v

    def term():
        v = power()
        while peek()[0] == "OP" and peek()[1] in ("*", "/", "//", "%"):
            op = take()[1]
            r = power()
            node = {"*": ast.Mult(), "/": ast.Div(), "//": ast.FloorDiv(), "%": ast.Mod()}[op]
            v = _binop(node, v, r)
        return v

    def power():
        b = unary()
        if peek() == ("OP", "**"):
            take()
            return exact_pow(b, power())
        return b

    def unary():
        if peek() == ("OP", "-"):
            take()
            return -unary()
        return primary()

    def primary():
        k, t = peek()
        if k == "NUM":
            take()
            return Fraction(int(t))
        if k == "ID":
            take()
            if peek() == ("OP", "("):
                take()
                args = [expr()]
                while peek() == ("OP", ","):
                    take()
                    args.append(expr())
                if take() != ("OP", ")"):
                    raise NotInGrammar("expected )")
                if t not in _FUNC_IMPL:
                    raise NotInGrammar(t)
                return Fraction(_FUNC_IMPL[t][0](*args))
            return Fraction(env[t])
        if (k, t) == ("OP", "("):
            take()
            v = expr()
            if take() != ("OP", ")"):
                raise NotInGrammar("expected )")
            return v
        raise NotInGrammar(f"unexpected {t!r}")

    v = expr()
    if i != len(toks):
        raise NotInGrammar("trailing tokens")
    return v


def parenthesise_power_under_minus(tree: ast.AST) -> tuple[str, bool]:
    """Counterfactual text (naming aid): the same Python expression with explicit parentheses
    around every power that stands directly under a run of unary minuses, ``-a ** b`` ->
    ``-(a ** b)``; nothing else is changed.  Returns (python text, whether anything changed)."""
    import copy

    changed = False

    class T(ast.NodeTransformer):
        def visit_UnaryOp(self, n):
            nonlocal changed
            self.generic_visit(n)
            if isinstance(n.operand, ast.BinOp) and isinstance(n.operand.op, ast.Pow):
                changed = True
                n.operand = ast.Call(func=ast.Name(id="__PAREN__", ctx=ast.Load()), args=[n.operand], keywords=[])
            return n

    new = ast.fix_missing_locations(T().visit(copy.deepcopy(tree)))
    return ast.unparse(new).replace("__PAREN__", ""), changed
