"""C18 edit alphabet: in-place edits of a model between two ``extract`` calls on the same objects.

The property quantifies over all graphs - including a graph that was already cut once and has been edited since.
Every edit here goes through the public editing API (``Node.replace_input_with``, ``Value.replace_all_uses_with``,
``Graph.insert_before/append/remove``, ``Value.name``, ``Value.const_value``, ``Graph.register_initializer``,
``Node.attributes[...]``, ``Graph.outputs[...]``) and keeps the model a legal, well-scoped, topologically sorted,
SSA model; with ``typed=True`` (executable gen_exec models) it also keeps every use type-correct (a value is only
replaced by one of the same element type and static shape), so the edited model still passes the checker and runs.

An edit is a JSON-able descriptor (scope = root + path of [node index, attribute, j], nodes by index plus an
``expect`` stamp, values by name); ``resolve`` re-validates every precondition against the LIVE model, so any
sub-sequence of a history is executable (an edit whose preconditions no longer hold is skipped).

Nothing here calls the functions under test; visibility / producers / captures come from ``c18_oracle.Scope``
(recomputed from the public containers).
"""

from __future__ import annotations

import random
from typing import Any

import numpy as np
import onnx_ir as ir

from vfpy import c18_oracle as OR

_GRAPH = ir.AttributeType.GRAPH

OPS = ["repoint", "repoint", "repoint", "insert", "bypass", "move", "rename", "init-tensor", "add-init", "swap-attrs",
       "nested-output"]


# ---- locating -------------------------------------------------------------------------------------------------
def root_obj(model: ir.Model, root):
    return model.graph if root[0] == "main" else list(model.functions.values())[root[1]]


def roots(model: ir.Model) -> list[list]:
    return [["main"]] + [["fn", i] for i in range(len(model.functions))]


def tree_of(model: ir.Model, root) -> OR.Scope:
    return OR.Scope(root_obj(model, root), None, None)


def scope_at(tree: OR.Scope, path) -> OR.Scope | None:
    sc = tree
    for i, name, j in path:
        if not (0 <= i < len(sc.nodes)):
            return None
        nxt = [c for c in sc.children_of.get(id(sc.nodes[i]), ()) if c.via[1] == name and c.via[3] == j]
        if not nxt:
            return None
        sc = nxt[0]
    return sc


def path_of_graph(tree: OR.Scope, graph) -> list | None:
    """Path of the (first occurrence of the) Graph object below the root of ``tree``."""
    for sc in tree.walk():
        if sc.graph is graph:
            return sc.path()
    return None


def stamp(node: ir.Node) -> list:
    return [node.op_type, node.outputs[0].name if node.outputs else None, len(node.inputs)]


def visible(sc: OR.Scope, index: int) -> list[tuple[ir.Value, int]]:
    """(value, levels up) of everything a node at ``index`` of ``sc`` may read, innermost scope first: inputs,
    initializers and outputs of EARLIER nodes of its graph, then the same of every enclosing graph before the
    node that holds the nested graph."""
    out: list[tuple[ir.Value, int]] = []
    up, limit = 0, index
    while sc is not None:
        vals = list(sc.graph.inputs) + OR.initializers_of(sc.graph) + [o for n in sc.nodes[:limit] for o in n.outputs]
        out.extend((v, up) for v in vals if v.name)
        if sc.parent is None:
            break
        limit, sc, up = sc.via[0], sc.parent, up + 1
    return out


def all_names(model: ir.Model) -> set[str]:
    names: set[str] = set()
    for r in roots(model):
        for sc in tree_of(model, r).walk():
            names.update(v.name for v in sc.defined.values() if v.name)
            names.update(n.name for n in sc.nodes if n.name)
    return names


def _dims(v: ir.Value):
    if v.shape is None:
        return None
    dims = list(v.shape.dims)
    return tuple(dims) if all(isinstance(d, int) for d in dims) else None


def same_type(a: ir.Value, b: ir.Value) -> bool:
    return (a.type is not None and b.type is not None and a.type == b.type and _dims(a) is not None
            and _dims(a) == _dims(b))


def _where(sc: OR.Scope) -> str:
    return "top" if sc.parent is None else "nested"


def _cls(sc: OR.Scope, v: ir.Value) -> str:
    return "local" if id(v) in sc.defined else "outer"


def _node(sc: OR.Scope, desc: dict) -> ir.Node | None:
    i = desc.get("node")
    if not isinstance(i, int) or not (0 <= i < len(sc.nodes)):
        return None
    n = sc.nodes[i]
    return n if stamp(n) == desc.get("expect") else None


def _container(model: ir.Model, root, sc: OR.Scope):
    """The object whose node list holds the nodes of ``sc`` (a Function for a function's root scope)."""
    return root_obj(model, root) if sc.parent is None else sc.graph


# ---- resolve: descriptor -> live objects (None = preconditions do not hold) -------------------------------------
def resolve(model: ir.Model, desc: dict, typed: bool) -> dict | None:
    try:
        tree = tree_of(model, desc["root"])
    except (IndexError, KeyError):
        return None
    sc = scope_at(tree, desc.get("path") or [])
    if sc is None or not sc.sorted_ok:
        return None
    op = desc["op"]
    w = _where(sc)
    if op == "repoint":
        node = _node(sc, desc)
        k = desc["input"]
        if node is None or not (0 <= k < len(node.inputs)) or node.inputs[k] is None:
            return None
        old = node.inputs[k]
        new = next((v for v, _up in visible(sc, desc["node"]) if v.name == desc["to"]), None)
        if new is None or new is old or (typed and not same_type(old, new)):
            return None
        kind = "repoint[top]" if w == "top" else f"repoint[nested:{_cls(sc, old)}->{_cls(sc, new)}]"
        return {"kind": kind, "node": node, "k": k, "new": new}
    if op == "insert":
        b = desc["before"]
        if not (0 <= b <= len(sc.nodes)):
            return None
        src = next((v for v, _up in visible(sc, b) if v.name == desc["src"]), None)
        if src is None or desc["new"] in all_names(model):
            return None
        consumer = None
        if desc.get("consumer"):
            j, k = desc["consumer"]
            if not (b <= j < len(sc.nodes)) or not (0 <= k < len(sc.nodes[j].inputs)) or sc.nodes[j].inputs[k] is not src:
                return None
            consumer = (sc.nodes[j], k)
        return {"kind": f"insert[{w}:{_cls(sc, src)}]", "src": src, "before": sc.nodes[b] if b < len(sc.nodes) else None,
                "consumer": consumer, "container": _container(model, desc["root"], sc)}
    if op == "bypass":
        node = _node(sc, desc)
        k = desc["input"]
        if node is None or len(node.outputs) != 1 or not (0 <= k < len(node.inputs)) or node.inputs[k] is None:
            return None
        o, inp = node.outputs[0], node.inputs[k]
        if any(x is o for x in sc.graph.outputs) or (typed and not same_type(o, inp)):
            return None
        sub = ":with-subgraph" if sc.children_of.get(id(node)) else ""
        return {"kind": f"bypass[{w}{sub}]", "node": node, "o": o, "inp": inp, "container": _container(model, desc["root"], sc)}
    if op == "move":
        node = _node(sc, desc)
        if node is None:
            return None
        i, t = desc["node"], desc["to"]
        pos = {id(o): m for m, n in enumerate(sc.nodes) for o in n.outputs}

        def deps(n):
            d = [id(v) for v in n.inputs if v is not None]
            for c in sc.children_of.get(id(n), ()):
                d.extend(c.captured)
            return d

        producers = [pos[d] for d in deps(node) if d in pos]
        mine = {id(o) for o in node.outputs}
        consumers = [m for m, n in enumerate(sc.nodes) if m != i and any(d in mine for d in deps(n))]
        if any(p >= i for p in producers) or any(c <= i for c in consumers):
            return None
        lo = max(producers, default=-1) + 1
        hi = (min(consumers) - 1) if consumers else len(sc.nodes) - 1  # index in the list without the node
        if not (lo <= t <= hi) or t == i:
            return None
        rest = [n for n in sc.nodes if n is not node]
        return {"kind": f"move[{w}]", "node": node, "before": rest[t] if t < len(rest) else None,
                "container": _container(model, desc["root"], sc)}
    if op == "rename":
        v = next((x for x in sc.defined.values() if x.name == desc["value"]), None)
        if v is None or desc["new"] in all_names(model):
            return None
        role = ("initializer" if any(x is v for x in OR.initializers_of(sc.graph)) else
                "graph-input" if any(x is v for x in sc.graph.inputs) else "node-output")
        return {"kind": f"rename[{role}:{w}]", "value": v}
    if op == "init-tensor":
        v = next((x for x in OR.initializers_of(sc.graph) if x.name == desc["name"]), None)
        if v is None or not isinstance(v.const_value, ir.Tensor):
            return None
        t = v.const_value
        ok = (ir.DataType.FLOAT, ir.DataType.DOUBLE) if typed else (ir.DataType.FLOAT, ir.DataType.DOUBLE, ir.DataType.INT64, ir.DataType.INT32)
        if t.dtype not in ok or t.size == 0:
            return None
        return {"kind": f"init-tensor[{w}]", "value": v}
    if op == "add-init":
        node = _node(sc, desc)
        k = desc["input"]
        if node is None or not (0 <= k < len(node.inputs)) or node.inputs[k] is None or desc["new"] in all_names(model):
            return None
        old = node.inputs[k]
        if typed and not (isinstance(old.type, ir.TensorType) and old.dtype in (ir.DataType.FLOAT, ir.DataType.DOUBLE) and _dims(old) is not None):
            return None
        target = sc
        for _ in range(int(desc.get("up", 0))):
            if target.parent is None:
                return None
            target = target.parent
        if not isinstance(target.graph, ir.Graph):
            return None  # the root of a function: functions have no initializers
        up = int(desc.get("up", 0))
        return {"kind": f"add-init[{w}:declared-{'here' if up == 0 else 'in-enclosing-graph'}]", "node": node, "k": k, "old": old,
                "graph": target.graph}
    if op == "swap-attrs":
        node = _node(sc, desc)
        if node is None:
            return None
        a, b = node.attributes.get(desc["a"]), node.attributes.get(desc["b"])
        if a is None or b is None or a is b or a.is_ref() or b.is_ref() or a.type != _GRAPH or b.type != _GRAPH or a.value is b.value:
            return None
        return {"kind": f"swap-graph-attrs[{w}]", "node": node, "a": a, "b": b}
    if op == "nested-output":
        k = desc["index"]
        if sc.parent is None or not (0 <= k < len(sc.graph.outputs)):
            return None
        old = sc.graph.outputs[k]
        new = next((v for v in sc.defined.values() if v.name == desc["to"]), None)
        if new is None or new is old or (typed and not same_type(old, new)):
            return None
        return {"kind": "nested-graph-output", "graph": sc.graph, "k": k, "new": new}
    return None


# ---- apply --------------------------------------------------------------------------------------------------------
def _new_value(name: str, like: ir.Value) -> ir.Value:
    v = ir.Value(name=name)
    if like.type is not None:
        v.type = like.type
    if like.shape is not None:
        v.shape = ir.Shape(list(like.shape.dims))
    return v


def _other_tensor(t: ir.Tensor) -> ir.Tensor:
    arr = np.array(t.numpy())
    flat = arr.ravel()
    new = np.roll(flat, 1)
    if np.array_equal(new, flat, equal_nan=arr.dtype.kind == "f"):
        new = flat + 1
    return ir.Tensor(new.reshape(arr.shape).astype(arr.dtype), dtype=t.dtype, name=t.name)


def apply(model: ir.Model, desc: dict, typed: bool) -> tuple[str | None, str | None]:
    """(kind, None) when applied, (None, None) when the preconditions do not hold, (None, exception class) when the
    editing API refused."""
    r = resolve(model, desc, typed)
    if r is None:
        return None, None
    op = desc["op"]
    try:
        if op == "repoint":
            r["node"].replace_input_with(r["k"], r["new"])
        elif op == "insert":
            v = _new_value(desc["new"], r["src"])
            node = ir.Node("", "Identity", [r["src"]], outputs=[v], name="n_" + desc["new"])
            if r["before"] is None:
                r["container"].append(node)
            else:
                r["container"].insert_before(r["before"], node)
            if r["consumer"] is not None:
                r["consumer"][0].replace_input_with(r["consumer"][1], v)
        elif op == "bypass":
            r["o"].replace_all_uses_with(r["inp"])
            r["container"].remove(r["node"], safe=True)
        elif op == "move":
            r["container"].remove(r["node"])
            if r["before"] is None:
                r["container"].append(r["node"])
            else:
                r["container"].insert_before(r["before"], r["node"])
        elif op == "rename":
            r["value"].name = desc["new"]
        elif op == "init-tensor":
            r["value"].const_value = _other_tensor(r["value"].const_value)
        elif op == "add-init":
            old = r["old"]
            if typed:
                arr = np.full(_dims(old), 0.25, dtype=np.float64 if old.dtype == ir.DataType.DOUBLE else np.float32)
            else:
                arr = np.array([0.25], dtype=np.float32)
            v = ir.Value(name=desc["new"], const_value=ir.Tensor(arr, name=desc["new"]))
            v.type = ir.TensorType(ir.DataType.DOUBLE if arr.dtype == np.float64 else ir.DataType.FLOAT)
            v.shape = ir.Shape(list(arr.shape))
            r["graph"].register_initializer(v)
            r["node"].replace_input_with(r["k"], v)
        elif op == "swap-attrs":
            ga, gb = r["a"].value, r["b"].value
            r["node"].attributes[desc["a"]] = ir.AttrGraph(desc["a"], gb)
            r["node"].attributes[desc["b"]] = ir.AttrGraph(desc["b"], ga)
        elif op == "nested-output":
            r["graph"].outputs[r["k"]] = r["new"]
    except Exception as e:  # noqa: BLE001 - the editing API may refuse; the history then goes on without this edit
        return None, type(e).__name__
    return r["kind"], None


# ---- propose ------------------------------------------------------------------------------------------------------
def _fresh(names: set[str], hint: str) -> str:
    i = 0
    while f"{hint}{i}" in names:
        i += 1
    return f"{hint}{i}"


def _propose(op: str, rng: random.Random, root, sc: OR.Scope, typed: bool, names: set[str]) -> dict | None:
    base: dict[str, Any] = {"op": op, "root": root, "path": sc.path()}
    nodes = sc.nodes
    if op in ("repoint", "add-init", "bypass"):
        cands = [(i, k) for i, n in enumerate(nodes) for k, v in enumerate(n.inputs) if v is not None]
        if not cands:
            return None
        i, k = rng.choice(cands)
        base.update(node=i, expect=stamp(nodes[i]), input=k)
        if op == "repoint":
            old = nodes[i].inputs[k]
            vis = [(v, up) for v, up in visible(sc, i) if v is not old and (not typed or same_type(old, v))]
            if not vis:
                return None
            groups = [[v for v, up in vis if up == 0], [v for v, up in vis if up > 0]]
            groups = [g for g in groups if g]
            base["to"] = rng.choice(rng.choice(groups)).name
        elif op == "add-init":
            depth = sc.depth
            base.update(new=_fresh(names, "c18w"), up=rng.randint(0, depth))
        return base
    if op == "insert":
        b = rng.randint(0, len(nodes))
        vis = visible(sc, b)
        if not vis:
            return None
        groups = [g for g in ([v for v, up in vis if up == 0], [v for v, up in vis if up > 0]) if g]
        src = rng.choice(rng.choice(groups))
        users = [(j, k) for j in range(b, len(nodes)) for k, v in enumerate(nodes[j].inputs) if v is src]
        base.update(before=b, src=src.name, new=_fresh(names, "c18v"),
                    consumer=list(rng.choice(users)) if users and rng.random() < 0.8 else None)
        return base
    if op == "move":
        if len(nodes) < 2:
            return None
        i = rng.randrange(len(nodes))
        base.update(node=i, expect=stamp(nodes[i]), to=rng.randrange(len(nodes)))
        return base
    if op == "rename":
        vals = [v for v in sc.defined.values() if v.name]
        if not vals:
            return None
        base.update(value=rng.choice(vals).name, new=_fresh(names, "c18r"))
        return base
    if op == "init-tensor":
        inits = [v for v in OR.initializers_of(sc.graph) if v.name]
        if not inits:
            return None
        base.update(name=rng.choice(inits).name)
        return base
    if op == "swap-attrs":
        cands = []
        for i, n in enumerate(nodes):
            gs = [name for name, kind, _j, _g in OR.child_graphs(n) if kind == "GRAPH"]
            if len(gs) >= 2:
                cands.append((i, gs))
        if not cands:
            return None
        i, gs = rng.choice(cands)
        a, b = rng.sample(gs, 2)
        base.update(node=i, expect=stamp(nodes[i]), a=a, b=b)
        return base
    if op == "nested-output":
        if sc.parent is None or not len(sc.graph.outputs):
            return None
        k = rng.randrange(len(sc.graph.outputs))
        old = sc.graph.outputs[k]
        vals = [v for v in sc.defined.values() if v.name and v is not old and (not typed or same_type(old, v))]
        if not vals:
            return None
        base.update(index=k, to=rng.choice(vals).name)
        return base
    return None


def propose(model: ir.Model, rng: random.Random, typed: bool, tries: int = 40) -> dict | None:
    """One applicable edit descriptor, drawn by generate-and-test (``resolve`` is the only judge of applicability).
    Nested scopes are preferred: what a nested body reads from outside is what region extraction has to track."""
    names = all_names(model)
    all_roots = roots(model)
    for _ in range(tries):
        op = rng.choice(OPS)
        root = rng.choice(all_roots)
        scopes = list(tree_of(model, root).walk())
        nested = [s for s in scopes if s.parent is not None]
        if op in ("swap-attrs",):
            pool = [s for s in scopes if any(len([1 for _n, kd, _j, _g in OR.child_graphs(n) if kd == "GRAPH"]) >= 2 for n in s.nodes)]
            if not pool:
                continue
            sc = rng.choice(pool)
        elif op == "nested-output":
            if not nested:
                continue
            sc = rng.choice(nested)
        else:
            sc = rng.choice(nested) if nested and rng.random() < 0.65 else rng.choice(scopes)
        desc = _propose(op, rng, root, sc, typed, names)
        if desc is not None and resolve(model, desc, typed) is not None:
            return desc
    return None


def touched_index(desc: dict, depth: int) -> int | None:
    """Index, in the node list of the graph ``depth`` levels below the root on the edit's path, of the node that holds
    (or is) the edit site; None when the edit names no node of that graph."""
    path = desc.get("path") or []
    if depth < len(path):
        return path[depth][0]
    if depth > len(path):
        return None
    if "node" in desc:
        return desc["node"]
    if desc["op"] == "insert" and desc.get("consumer"):
        return desc["consumer"][0]
    return None
