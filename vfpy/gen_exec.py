"""gen_exec - checker-valid, *executable* ONNX models built through the public ``onnx_ir`` API,
plus the two independent evaluators and the checker wrapper the execution-based checks share
(C05 passes, C14 pass contracts, C18 region extraction).

API (everything else in this module is private):

* ``gen_model(rng, size=10, features=None) -> (ir.Model, info)``   one *candidate* (not yet validated)
* ``model_from_seed(seed, size, features) -> (ir.Model, info)``    the deterministic core of gen_model
* ``gen_checked(rng, size=10, features=None, k_inputs=3, max_tries=6, rejected=None) -> Case | None``
  candidates until one passes ``onnx.checker`` *and* is executed by at least one evaluator
  (``rejected`` is a Counter that receives the reasons of rejected candidates)
* ``admit(model, info, inputs_rng, k_inputs=3) -> (Case | None, reason)``   the gate on its own
* ``make_inputs(rng, model_or_proto, k) -> list[list[np.ndarray]]``   k positional input sets for the
  *non-initializer* graph inputs (plain values, zeros/negatives, NaN/inf where the dtype allows)
* ``run_reference(proto, inputs) / run_ort(proto, inputs) -> RunResult``   one positional input set;
  ``run_reference_many / run_ort_many(proto, input_sets) -> list[RunResult]`` build the evaluator once
* ``check(proto) -> None | str``   ``onnx.checker.check_model`` (default mode); the message if rejected
* ``optional_inputs(proto)``, ``make_overrides(rng, proto, k)``, ``override_applicable(M, P(M), override)``:
  initializer-backed graph inputs are inputs too - ``Case.override_sets`` / ``override_baseline`` hold extra
  runs of M that feed them by name (``run_*_many(proto, input_sets, overrides=[{name: value}, ...])``)
* ``same_outputs(a, b) -> None | str``   exact positional comparison (dtype, shape, values; NaN == NaN)
* ``required_inputs(proto)``, ``to_proto(model)``, ``checker_class(message)``, ``FEATURES``, ``EVALUATORS``,
  ``RUNNERS`` (evaluator name -> ``run_*_many``)
* ``EXTRA_FEATURES`` (``ALL_FEATURES`` = both): features drawn only with ``extra=True`` (``choose_features``,
  ``model_from_seed``, ``gen_model``, ``gen_checked``); naming them explicitly in ``features`` always works

Evaluator discipline: an evaluator either returns outputs or a structured 'cannot run'
(``RunResult.reason``).  Things an evaluator is known to get *silently* wrong are refused up front by
a static gate (reference evaluator: function overloads, Loop bodies with extra inputs; onnxruntime:
a value listed twice as subgraph output) and onnxruntime runs every input set twice and refuses to
answer when the two runs differ.  Compare P(M) with M only through an evaluator that ran both.

Every random decision derives from one integer seed (``info["seed"]``): the base structure uses
``Random(f"{seed}:base")`` and every planted *feature* its own ``Random(f"{seed}:{feature}")``, so
``model_from_seed(seed, size, subset_of_features)`` is deterministic and a set of planted features
can be shrunk (ddmin) by regeneration.  Feature planters are self-contained (they append their own
nodes / control flow at the end of the main graph), so one feature alone reproduces its pattern.

Generated models are topologically sorted, SSA per scope, never shadow an outer name, and type
every graph input/output; the generator tracks (dtype, shape) of every value it creates and the
gate cross-checks that against what the evaluators return (``reject:type_tracking``).
"""

from __future__ import annotations

import dataclasses
import itertools
import random
import re
import warnings
from collections import Counter
from typing import Any, Iterable, Sequence

import numpy as np
import onnx
import onnx_ir as ir

F32, F64, I64, I32, BOOL = (
    ir.DataType.FLOAT,
    ir.DataType.DOUBLE,
    ir.DataType.INT64,
    ir.DataType.INT32,
    ir.DataType.BOOL,
)
_NP = {F32: np.float32, F64: np.float64, I64: np.int64, I32: np.int32, BOOL: np.bool_}
STR = ir.DataType.STRING  # only the string planters (extra features) create values of this type
_NP[STR] = np.object_
_FLOATS = (F32, F64)
_NUMERIC = (F32, F64, I64, I32)
FN_DOMAIN = "vf.fn"
FN_DOMAIN2 = "vf.fn2"
EVALUATORS = ("ref", "ort")

# feature -> probability with which gen_model plants it when ``features`` is None
FEATURES: dict[str, float] = {
    # base structure
    "if": 0.45,
    "loop": 0.30,
    "fn": 0.40,
    # function flavours (each implies that functions and call sites exist)
    "fn_attr": 0.35,  # attribute parameters with defaults, call sites set them
    "fn_default_used": 0.15,  # some call sites rely on the default (reference evaluator cannot run)
    "fn_nested": 0.25,  # a function calling a function, forwarding an attribute by reference
    "fn_overload": 0.15,  # two functions with the same (domain, name) and different overloads
    "fn_alias": 0.10,  # a function output that *is* a function input; called at top level
    "fn_alias_branch": 0.08,  # ... and called inside an If branch whose output is the aliased output
    "fn_names_shadow": 0.10,  # function-internal value name reused by a later sibling subgraph
    "fn_named_identity": 0.08,  # custom-domain function called "Identity" that is not the identity
    # duplicates and near-duplicates
    "dup_expr": 0.40,
    "near_dup_attr": 0.35,
    "near_dup_outcount": 0.20,
    "near_dup_default": 0.20,
    "signed_zero": 0.10,
    "dup_init": 0.35,
    "near_dup_init_dtype": 0.25,
    "near_dup_init_shape": 0.25,
    # signature aliasing
    "init_is_input": 0.30,
    "out_alias_input": 0.20,
    "out_dup": 0.20,
    "out_init": 0.20,
    # dead things
    "unused_node": 0.35,
    "unused_fn": 0.20,
    "unused_opset": 0.25,
    "unused_init": 0.20,
    # identities
    "identity_chain": 0.35,
    "identity_io": 0.25,  # Identity directly between input/initializer and output
    "identity_io_shadow": 0.08,  # ... whose output name is also used inside an *earlier* sibling subgraph
    "identity_rename_shadow": 0.05,  # same, but the Identity input is a node output defined before that subgraph
    "cse_rename_shadow": 0.05,  # duplicate pair: the later twin is an output named like an earlier subgraph-local value
    "identity_outer_branch": 0.12,  # t = Identity(outer node output) returned by an If branch / Loop body
    "identity_input_branch": 0.12,  # t = Identity(outer graph input / initializer) returned by a branch
    "identity_in_branch": 0.20,  # removable Identity in the middle of a branch
    # captures, constants, subgraph initializers
    "captured_only": 0.30,  # a main-graph node whose output is used only inside a subgraph
    "consts_all_forms": 0.40,
    "const_in_branch": 0.25,
    "subgraph_init": 0.25,
    "sibling_init_name": 0.10,  # then-branch initializer named like an else-branch node output
    # optional inputs/outputs
    "optional_io": 0.40,
    "bn_training": 0.10,
    # cosmetics
    "metadata": 0.40,
    "missing_value_info": 0.30,
    # added later - keep new entries at the end: choose_features draws in this order
    "near_dup_const_rank": 0.20,  # Constants/initializers equal in dtype and bytes, differing in rank: (), (1,), (1,1)
    "dup_init_is_input": 0.20,  # an initializer that is ALSO a graph input, listed before an identical plain initializer
    "fn_called_from_subgraph": 0.20,  # a function whose only call sits in an If branch / Loop body (of another function's body)
}
# features that are drawn only on request (``extra=True`` in choose_features / model_from_seed / gen_model /
# gen_checked): the default feature draw - and so every existing user of this module - is unchanged
EXTRA_FEATURES: dict[str, float] = {
    # a chain of functions handing an attribute parameter down by reference under a DIFFERENT parameter name at each
    # level (``G<slope = @a>``, crosswise ``G<a = @b, b = @a>``), used on operator attributes that have a default
    "fn_attr_forward_renamed": 0.22,
    # functions are separate name spaces: node outputs inside the control flow of a function body, its top-level
    # values and its formal inputs/outputs are named like values in use where the function is called (actual
    # arguments, call outputs, earlier/later values, graph inputs/initializers, names local to sibling subgraphs)
    "fn_scope_name_reuse": 0.25,
    # the same for what a nested body of the function DECLARES: Loop-body inputs and subgraph initializers
    "fn_subgraph_formal_name_reuse": 0.12,
    # added later - keep new entries at the end: choose_features draws in this order
    # Constant nodes in the string forms (value_string, value_strings, value = STRING tensor), twins and near-twins
    # of them, consumed by Identity / Shape / Gather / Concat (string graph outputs), also inside If branches
    "const_strings": 0.25,
    # STRING initializers: duplicates, near-duplicates (other content / the same bytes split differently / other
    # shape), in the main graph and in a branch
    "string_inits": 0.20,
    # a function with trailing OPTIONAL formal inputs (used in optional operator positions / forwarded to a nested
    # call / captured by a branch of the body); call sites pass fewer inputs than declared or "" in the middle
    "fn_optional_inputs": 0.22,
    # a function whose opset_imports hold a domain (ai.onnx.ml, used by its body; sometimes an unused one too) that
    # the MODEL does not import
    "fn_foreign_opset": 0.15,
    # twin non-deterministic nodes without a seed (RandomNormal[Like], RandomUniform[Like], Multinomial), observed
    # only through all(a == b), which is 0 with probability 1 for independent draws and 1 for one shared draw
    "random_twins": 0.15,
    # the same for Bernoulli and training-mode Dropout
    "random_twins_unlisted": 0.08,
    # Identity nodes between values whose declared shapes hold symbolic / unknown dimensions
    "symbolic_dims": 0.12,
    # names a pass DERIVES when it makes a name unique are already in use.  Initializers of sibling / nested subgraphs
    # carry the same name ``c`` (legal: sibling scopes) and other values are literally called ``c_1``, ``c_2``,
    # ``c_1_1`` ...: further initializers of the same / an earlier / a later subgraph, main-graph initializers and
    # node outputs, node outputs and formal inputs local to other subgraphs.  All tensors differ and are all used
    "subgraph_init_name_family": 0.20,
    # ... and the initializer that holds the derived name is an OUTPUT of its If branch (it cannot leave the branch)
    "subgraph_init_returned_name_family": 0.05,
    # the same around function calls: values inside a function that is called several times are called ``t`` (and
    # ``t_2``), values where the calls sit are called ``t``, ``t_2``, ``t_3``, ``t_2_2`` ... (functions are name spaces)
    "fn_inner_name_family": 0.10,
    # ROLE and PAYLOAD of a value disagree in a legal way (``const_value`` of a value that is not a registered
    # initializer is a hint that serialisation ignores): a required main-graph input that carries a const_value -
    # built that way, or registered as an initializer and popped from ``graph.initializers`` again - next to a real
    # initializer with the same bytes; fed values differ from the hint
    "input_const_hint": 0.16,
    # the same for FORMAL inputs: the inputs of a Loop body and of a model-local function
    "formal_input_const_hint": 0.10,
    # node outputs that carry a (truthful) const_value: Constant outputs and Neg / Identity of them, in the main
    # graph and in an If branch, next to an initializer with the same bytes
    "node_output_const_hint": 0.10,
    # FALSY attribute values (0, 0.0, "", empty lists) where the operator's own default differs or the attribute is
    # required: as the DEFAULT of a function's attribute parameter with call sites that omit the attribute, as an
    # explicit value at a call site whose parameter has another default, forwarded through a wrapper function, and on
    # plain operator nodes next to a twin that relies on the schema default
    "fn_attr_falsy": 0.22,
}
ALL_FEATURES: dict[str, float] = {**FEATURES, **EXTRA_FEATURES}
_FN_FEATURES = ("fn", "fn_attr", "fn_default_used", "fn_nested", "fn_overload")
DUPLICATE_FEATURES = frozenset(
    {"const_strings", "string_inits", "random_twins", "random_twins_unlisted", "cse_rename_shadow", "near_dup_const_rank", "dup_init_is_input", "dup_expr", "near_dup_attr", "near_dup_outcount", "near_dup_default", "signed_zero", "dup_init",
     "near_dup_init_dtype", "near_dup_init_shape"}
)


@dataclasses.dataclass
class RunResult:
    """Outcome of one evaluation: ``ok`` with positional ``outputs``, or a structured 'cannot run'
    (``reason`` is a short stable class such as ``ort:load:InvalidGraph``, ``detail`` the message)."""

    ok: bool
    outputs: list[np.ndarray] | None = None
    reason: str | None = None
    detail: str = ""


@dataclasses.dataclass
class Case:
    """An admitted model: passed the checker and was executed by >= 1 evaluator on >= 1 input set."""

    model: ir.Model
    proto: onnx.ModelProto
    info: dict
    inputs: list[list[np.ndarray]]
    baseline: dict[str, list[RunResult]]  # evaluator -> one RunResult per input set
    # runs in which some initializer-backed ("optional") graph inputs are fed instead of defaulted:
    # (index into ``inputs`` for the required values, {optional input name: value})
    override_sets: list[tuple[int, dict[str, np.ndarray]]] = dataclasses.field(default_factory=list)
    override_baseline: dict[str, list[RunResult]] = dataclasses.field(default_factory=dict)

    def ran(self, evaluator: str) -> list[int]:
        return [j for j, r in enumerate(self.baseline[evaluator]) if r.ok]

    def ran_override(self, evaluator: str) -> list[int]:
        return [j for j, r in enumerate(self.override_baseline.get(evaluator, [])) if r.ok]


class _TV:
    """A value together with the (dtype, shape) the generator knows it has."""

    __slots__ = ("v", "dt", "shape", "kind")

    def __init__(self, v: ir.Value, dt, shape, kind: str):
        self.v, self.dt, self.shape, self.kind = v, dt, tuple(shape), kind  # kind: in/init/node

    @property
    def size(self) -> int:
        return int(np.prod(self.shape)) if self.shape else 1


class _Scope:
    def __init__(self, kind: str, parent: "_Scope | None" = None):
        self.kind, self.parent = kind, parent  # kind: main / branch / loop / fn
        self.depth = 0 if parent is None else parent.depth + 1
        self.nodes: list[ir.Node] = []
        self.inputs: list[_TV] = []
        self.inits: list[_TV] = []
        self.pool: list[_TV] = []
        self.keys: set = set()

    def visible(self) -> list[_TV]:
        return (self.parent.visible() if self.parent is not None else []) + self.pool


@dataclasses.dataclass
class _Fn:
    name: str
    domain: str
    overload: str
    in_types: list
    out_types: list
    attrs: dict  # name -> (kind 'f'|'i', default or None)
    function: Any = None


def _bshape(a, b):
    return tuple(np.broadcast_shapes(tuple(a), tuple(b)))


class _Builder:
    """Builds one candidate model.  All names are globally unique unless a planter reuses a name on
    purpose in *sibling* scopes (which the checker allows)."""

    def __init__(self, seed: int, size: int, feats: Iterable[str]):
        self.seed, self.size = seed, max(2, int(size))
        self.feats = set(feats)
        unknown = self.feats - set(ALL_FEATURES)
        if unknown:
            raise ValueError(f"unknown features {sorted(unknown)}")
        self.rng = random.Random(f"{seed}:base")
        self.cos = random.Random(f"{seed}:cosmetic")
        self.counter = itertools.count()
        if "near_dup_outcount" in self.feats:
            self.opset = 17  # Split-13: the number of pieces is the number of outputs
        else:
            self.opset = random.Random(f"{seed}:opset").choice([17, 18, 21, 21])
        self.fns: list[_Fn] = []
        self.functions: list[ir.Function] = []
        self.planted: list[str] = []
        self.observe: list[_TV] = []  # main-graph values that must be graph outputs
        self.dead: set[int] = set()  # ids of values that are deliberately unused
        self.extra_outputs: list[_TV] = []  # aliasing outputs appended as they are
        self.model_opsets: dict[str, int] = {}
        self.ops: Counter = Counter()
        self.n_subgraphs = 0
        self.main = _Scope("main")

    # ---- small helpers ---------------------------------------------------------------------
    def fresh(self, hint: str = "v") -> str:
        return f"{hint}{next(self.counter)}"

    def frng(self, feature: str) -> random.Random:
        return random.Random(f"{self.seed}:{feature}")

    def _set_type(self, value: ir.Value, dt, shape, required: bool) -> None:
        if not required and "missing_value_info" in self.feats and self.cos.random() < 0.5:
            return
        value.type = ir.TensorType(dt)
        value.shape = ir.Shape([int(d) for d in shape])

    def rand_array(self, rng, dt, shape) -> np.ndarray:
        n = int(np.prod(shape)) if shape else 1
        if dt == BOOL:
            vals = [rng.random() < 0.5 for _ in range(n)]
        elif dt in _FLOATS:
            vals = [rng.randint(-12, 12) / 4.0 for _ in range(n)]
        else:
            vals = [rng.randint(-3, 4) for _ in range(n)]
        return np.array(vals, dtype=_NP[dt]).reshape(tuple(shape))

    def _tensor(self, arr: np.ndarray, name: str | None, rng) -> Any:
        if rng.random() < 0.2:  # a proto-backed tensor implementation
            return ir.serde.deserialize_tensor(onnx.numpy_helper.from_array(arr, name=name or ""))
        return ir.tensor(arr, name=name)

    @staticmethod
    def _attr(name: str, val) -> ir.Attr:
        if isinstance(val, ir.Attr):
            return val
        if isinstance(val, bool):
            return ir.AttrInt64(name, int(val))
        if isinstance(val, int):
            return ir.AttrInt64(name, val)
        if isinstance(val, float):
            return ir.AttrFloat32(name, val)
        if isinstance(val, str):
            return ir.AttrString(name, val)
        if isinstance(val, ir.Graph):
            return ir.AttrGraph(name, val)
        if isinstance(val, (list, tuple)):
            if all(isinstance(x, int) for x in val):
                return ir.AttrInt64s(name, list(val))
            return ir.AttrFloat32s(name, [float(x) for x in val])
        return ir.AttrTensor(name, val)  # a tensor

    def emit(self, sc: _Scope, op: str, inputs: Sequence, attrs: dict | None = None, outs=((F32, (2, 3)),),
             domain: str = "", overload: str = "", names: Sequence[str] | None = None, typed: bool = False,
             untyped: bool = False) -> list[_TV]:
        """Append a node to ``sc`` and return its outputs as typed values."""
        attr_list = [self._attr(k, v) for k, v in (attrs or {}).items()]
        node = ir.Node(
            domain, op, [x.v if isinstance(x, _TV) else x for x in inputs], attributes=attr_list,
            overload=overload, num_outputs=len(outs),
            name=None if self.cos.random() < 0.25 else self.fresh(f"n_{op}_"),
        )
        if "metadata" in self.feats and self.cos.random() < 0.4:
            node.doc_string = "doc of " + op
            node.metadata_props["vf.key"] = self.fresh("m")
        tvs = []
        for i, (o, (dt, shape)) in enumerate(zip(node.outputs, outs)):
            o.name = names[i] if names else self.fresh("v")
            if not untyped:
                self._set_type(o, dt, shape, required=typed)
            tv = _TV(o, dt, shape, "node")
            sc.pool.append(tv)
            tvs.append(tv)
        sc.nodes.append(node)
        self.ops[op if not domain else f"{domain}::{op}"] += 1
        return tvs

    # ---- leaves: inputs, initializers, constants --------------------------------------------
    def add_input(self, sc: _Scope, dt, shape, name: str | None = None) -> _TV:
        v = ir.Value(name=name or self.fresh("in"))
        self._set_type(v, dt, shape, required=True)
        tv = _TV(v, dt, shape, "in")
        sc.inputs.append(tv)
        sc.pool.append(tv)
        return tv

    def add_init(self, sc: _Scope, rng, dt, shape, arr: np.ndarray | None = None, name: str | None = None) -> _TV:
        name = name or self.fresh("w")
        arr = self.rand_array(rng, dt, shape) if arr is None else arr
        v = ir.Value(name=name, const_value=self._tensor(arr, name, rng))
        self._set_type(v, dt, shape, required=True)
        tv = _TV(v, dt, shape, "init")
        sc.inits.append(tv)
        sc.pool.append(tv)
        return tv

    def const(self, sc: _Scope, rng, dt, shape, arr: np.ndarray | None = None, form: str | None = None,
              name: str | None = None) -> _TV:
        """A Constant node; the attribute form is drawn from the forms that can express (dt, shape)."""
        shape = tuple(shape)
        arr = self.rand_array(rng, dt, shape) if arr is None else arr
        forms = ["value"]
        if dt == F32 and shape == ():
            forms += ["value_float"] * 2
        if dt == F32 and len(shape) == 1:
            forms += ["value_floats"] * 2
        if dt == I64 and shape == ():
            forms += ["value_int"] * 2
        if dt == I64 and len(shape) == 1:
            forms += ["value_ints"] * 2
        form = form or rng.choice(forms)
        if form == "value":
            attrs = {"value": self._tensor(arr, self.fresh("ct"), rng)}
        elif form == "value_float":
            attrs = {"value_float": float(arr)}
        elif form == "value_floats":
            attrs = {"value_floats": ir.AttrFloat32s("value_floats", [float(x) for x in arr])}
        elif form == "value_int":
            attrs = {"value_int": int(arr)}
        else:
            attrs = {"value_ints": ir.AttrInt64s("value_ints", [int(x) for x in arr])}
        return self.emit(sc, "Constant", [], attrs, [(dt, shape)], names=[name] if name else None)[0]

    def need(self, sc: _Scope, rng, dt, shape, local: bool = False) -> _TV:
        """Some visible value of exactly this type; created (initializer or Constant) if there is none."""
        shape = tuple(shape)
        pool = sc.pool if local else sc.visible()
        cands = [t for t in pool if t.dt == dt and t.shape == shape]
        if cands and rng.random() < 0.8:
            return rng.choice(cands)
        if sc.kind == "main" and rng.random() < 0.5:
            return self.add_init(sc, rng, dt, shape)
        if sc.kind in ("branch", "loop") and "subgraph_init" in self.feats and rng.random() < 0.5:
            return self.add_init(sc, rng, dt, shape)
        return self.const(sc, rng, dt, shape)

    def pick(self, sc: _Scope, rng, pred=lambda t: True) -> _TV | None:
        cands = [t for t in sc.visible() if pred(t) and id(t.v) not in self.dead]
        if not cands:
            return None
        # bias towards recent values so that graphs are deep, not flat
        i = max(rng.randrange(len(cands)), rng.randrange(len(cands)))
        return cands[i]

    # ---- the plain operator menu ---------------------------------------------------------------
    def plain_op(self, sc: _Scope, rng) -> list[_TV] | None:
        """One operator from the menu over visible values (captures outer values freely)."""
        for _ in range(4):
            kind = rng.choice(["bin"] * 4 + ["un"] * 3 + ["cast", "concat", "split", "clip"])
            made = getattr(self, "_op_" + kind)(sc, rng)
            if made is not None:
                return made
        return None

    def _dup_key(self, sc: _Scope, op: str, inputs, attrs) -> bool:
        """True when an identical node already exists in this scope (the base avoids accidental
        duplicates: duplicates are planted deliberately and recorded)."""
        key = (op, tuple(id(x.v) if isinstance(x, _TV) else None for x in inputs), repr(sorted((attrs or {}).items())))
        if key in sc.keys:
            return True
        sc.keys.add(key)
        return False

    def _op_bin(self, sc, rng):
        a = self.pick(sc, rng, lambda t: t.dt in _NUMERIC and t.size <= 24)
        if a is None:
            return None
        op = rng.choice(["Add", "Sub", "Mul"])
        bs = [t for t in sc.visible() if t.dt == a.dt and t is not a and id(t.v) not in self.dead
              and (t.shape == a.shape or t.shape == () or (len(a.shape) >= 1 and t.shape == a.shape[-1:]))]
        b = rng.choice(bs) if bs and rng.random() < 0.85 else self.need(sc, rng, a.dt, rng.choice([(), a.shape]))
        ins = [a, b] if rng.random() < 0.6 else [b, a]
        if self._dup_key(sc, op, ins, None):
            return None
        return self.emit(sc, op, ins, None, [(a.dt, _bshape(a.shape, b.shape))])

    def _op_un(self, sc, rng):
        op = rng.choice(["Neg", "Abs", "Relu"])
        a = self.pick(sc, rng, lambda t: (t.dt in _FLOATS) if op == "Relu" else (t.dt in _NUMERIC))
        if a is None or self._dup_key(sc, op, [a], None):
            return None
        return self.emit(sc, op, [a], None, [(a.dt, a.shape)])

    def _op_cast(self, sc, rng):
        a = self.pick(sc, rng, lambda t: t.dt in _NUMERIC)
        if a is None:
            return None
        to = rng.choice([d for d in (F32, I64, I64, F32, I32, F64) if d != a.dt])
        attrs = {"to": int(to.value)}
        if self._dup_key(sc, "Cast", [a], attrs):
            return None
        return self.emit(sc, "Cast", [a], attrs, [(to, a.shape)])

    def _op_concat(self, sc, rng):
        a = self.pick(sc, rng, lambda t: t.dt in _NUMERIC and len(t.shape) >= 1 and t.size <= 12)
        if a is None:
            return None
        bs = [t for t in sc.visible() if t.dt == a.dt and t.shape == a.shape and id(t.v) not in self.dead]
        b = rng.choice(bs)
        axis = rng.randrange(len(a.shape))
        if rng.random() < 0.3:
            axis -= len(a.shape)
        attrs = {"axis": axis}
        if self._dup_key(sc, "Concat", [a, b], attrs):
            return None
        shape = list(a.shape)
        shape[axis] *= 2
        return self.emit(sc, "Concat", [a, b], attrs, [(a.dt, tuple(shape))])

    def split_node(self, sc, rng, a: _TV, axis: int, parts: int, explicit_axis: bool = True, names=None, typed=False):
        shape = list(a.shape)
        shape[axis] //= parts
        attrs = {}
        if explicit_axis or axis != 0:
            attrs["axis"] = axis
        ins: list = [a]
        if self.opset >= 18:
            attrs["num_outputs"] = parts
        elif rng.random() < 0.3:
            ins.append(self.const(sc, rng, I64, (parts,), np.array([shape[axis]] * parts, np.int64)))
        return self.emit(sc, "Split", ins, attrs, [(a.dt, tuple(shape))] * parts, names=names, typed=typed)

    def _op_split(self, sc, rng):
        a = self.pick(sc, rng, lambda t: t.dt in _NUMERIC and any(d in (2, 4, 6) for d in t.shape))
        if a is None:
            return None
        axis = rng.choice([i for i, d in enumerate(a.shape) if d in (2, 4, 6)])
        parts = 2 if a.shape[axis] != 6 else rng.choice([2, 3])
        if self._dup_key(sc, "Split", [a], {"axis": axis, "parts": parts}):
            return None
        return self.split_node(sc, rng, a, axis, parts, explicit_axis=rng.random() < 0.7)

    def _op_clip(self, sc, rng):
        a = self.pick(sc, rng, lambda t: t.dt in (F32, I64))
        if a is None:
            return None
        lo = self.need(sc, rng, a.dt, ())
        ins = [a, lo] if rng.random() < 0.5 else [a, lo, self.need(sc, rng, a.dt, ())]
        if self._dup_key(sc, "Clip", ins, None):
            return None
        return self.emit(sc, "Clip", ins, None, [(a.dt, a.shape)])

    # ---- subgraphs -----------------------------------------------------------------------------
    def make_graph(self, sc: _Scope, outputs: Sequence[_TV], name: str) -> ir.Graph:
        g = ir.Graph(
            [t.v for t in sc.inputs], [t.v for t in outputs], nodes=sc.nodes,
            initializers=[t.v for t in sc.inits], name=name,
        )
        if "metadata" in self.feats and self.cos.random() < 0.5:
            g.doc_string = "graph doc"
            g.metadata_props["vf.graph"] = name
        self.n_subgraphs += 1
        return g

    def local_output(self, sc: _Scope, rng, dt, shape) -> _TV:
        """A value of this type *produced by a node of this scope* (subgraph outputs must be)."""
        cands = [t for t in sc.pool if t.kind == "node" and t.dt == dt and t.shape == tuple(shape)
                 and id(t.v) not in self.dead]
        if cands and rng.random() < 0.8:
            return rng.choice(cands)
        src = self.need(sc, rng, dt, shape)
        op = rng.choice(["Neg", "Abs"])
        return self.emit(sc, op, [src], None, [(dt, shape)], typed=True)[0]

    def bool_scalar(self, sc: _Scope, rng) -> _TV:
        cands = [t for t in sc.visible() if t.dt == BOOL and t.shape == ()]
        if cands and rng.random() < 0.7:
            return rng.choice(cands)
        if sc.kind == "main" and rng.random() < 0.8:
            return self.add_input(sc, BOOL, (), self.fresh("cond"))
        src = self.pick(sc, rng, lambda t: t.dt in _NUMERIC and t.shape == ())
        if src is None:
            if sc.kind == "main":
                return self.add_input(sc, BOOL, (), self.fresh("cond"))
            return self.const(sc, rng, BOOL, (), np.array(rng.random() < 0.5))
        return self.emit(sc, "Cast", [src], {"to": int(BOOL.value)}, [(BOOL, ())])[0]

    def fill_scope(self, sc: _Scope, rng, n_ops: int) -> None:
        for _ in range(n_ops):
            r = rng.random()
            if sc.depth < 2 and r < 0.18 and sc.kind != "fn":
                (self.gen_if if rng.random() < 0.65 else self.gen_loop)(sc, rng)
            elif r < 0.35 and self.fns:
                self.gen_call(sc, rng)
            else:
                self.plain_op(sc, rng)

    def gen_if(self, sc: _Scope, rng, then_hook=None, else_hook=None, out_types=None) -> list[_TV]:
        """An If node in ``sc``; both branches capture visible values.  ``*_hook(branch_scope)`` may
        return the list of branch outputs itself (used by planters)."""
        cond = self.bool_scalar(sc, rng)
        if out_types is None:
            srcs = [t for t in sc.visible() if t.dt in _NUMERIC and t.size <= 24]
            out_types = [(t.dt, t.shape) for t in rng.sample(srcs, min(len(srcs), rng.choice([1, 1, 2])))] or [(F32, (2, 3))]
        graphs = []
        for which, hook in (("then", then_hook), ("else", else_hook)):
            child = _Scope("branch", sc)
            outs = hook(child) if hook is not None else None
            if outs is None:
                self.fill_scope(child, rng, rng.randint(1, 3))
                outs = []
                for dt, shape in out_types:
                    t = self.local_output(child, rng, dt, shape)
                    if any(t is o for o in outs):  # onnxruntime mishandles a value listed twice as subgraph output
                        t = self.emit(child, "Neg", [t], None, [(dt, shape)], typed=True)[0]
                    outs.append(t)
            for t in outs:
                self._set_type(t.v, t.dt, t.shape, required=True)
            graphs.append(self.make_graph(child, outs, self.fresh(which + "_g")))
        return self.emit(sc, "If", [cond], {"then_branch": graphs[0], "else_branch": graphs[1]}, list(out_types))

    def gen_loop(self, sc: _Scope, rng, body_hook=None, v0: _TV | None = None) -> list[_TV]:
        """A Loop with a constant trip count, one loop-carried value and (mostly) one scan output.
        The body captures visible values; ``body_hook(body_scope, carried_in)`` may return the
        carried output itself."""
        trip_n = rng.randint(1, 3)
        trip = self.const(sc, rng, I64, (), np.array(trip_n, np.int64)) if rng.random() < 0.7 or sc.kind != "main" \
            else self.add_init(sc, rng, I64, (), np.array(trip_n, np.int64))
        cond = None if rng.random() < 0.5 else self.const(sc, rng, BOOL, (), np.array(True), form="value")
        v0 = v0 or self.pick(sc, rng, lambda t: t.dt in (F32, I64) and 1 <= t.size <= 12) or self.need(sc, rng, F32, (2, 3))
        body = _Scope("loop", sc)
        self.add_input(body, I64, (), self.fresh("iter"))
        cond_in = self.add_input(body, BOOL, (), self.fresh("cin"))
        v_in = self.add_input(body, v0.dt, v0.shape, self.fresh("carry"))
        v_out = body_hook(body, v_in) if body_hook is not None else None
        if v_out is None:
            other = self.need(body, rng, v0.dt, rng.choice([(), v0.shape]))
            v_out = self.emit(body, rng.choice(["Add", "Sub", "Mul"]), [v_in, other], None, [(v0.dt, v0.shape)], typed=True)[0]
            self.fill_scope(body, rng, rng.randint(0, 2))
        cond_out = self.emit(body, "Identity", [cond_in], None, [(BOOL, ())], typed=True)[0]
        outs, out_types = [cond_out, v_out], [(v0.dt, v0.shape)]
        if rng.random() < 0.7:
            scan = self.local_output(body, rng, *rng.choice([(v0.dt, v0.shape), (F32, (3,))]))
            if scan is not v_out and scan is not cond_out:
                outs.append(scan)
                out_types.append((scan.dt, (trip_n, *scan.shape)))
        for t in outs:
            self._set_type(t.v, t.dt, t.shape, required=True)
        g = self.make_graph(body, outs, self.fresh("body_g"))
        return self.emit(sc, "Loop", [trip, cond, v0], {"body": g}, out_types)

    # ---- model-local functions -----------------------------------------------------------------
    def gen_function(self, rng, name: str | None = None, overload: str = "", domain: str = FN_DOMAIN,
                     body_hook=None, in_types=None, with_attrs: bool | None = None, attrs: dict | None = None) -> _Fn:
        """``attrs`` (name -> (kind, default)) declares exactly these attribute parameters (then ``body_hook`` is
        expected to use them); otherwise ``with_attrs`` / the planted features decide about 'alpha' and 'k'."""
        in_types = in_types or ([(F32, (2, 3))] if rng.random() < 0.6 else [(F32, (2, 3)), rng.choice([(F32, (2, 3)), (I64, (2, 3)), (F32, ())])])
        if attrs is not None:
            attrs, with_attrs = dict(attrs), False
        else:
            attrs = {}
        if with_attrs if with_attrs is not None else (("fn_attr" in self.feats or "fn_default_used" in self.feats) and rng.random() < 0.8):
            attrs["alpha"] = ("f", rng.choice([None, 0.5, 2.0, 2.0]))
            if rng.random() < 0.5:
                attrs["k"] = ("i", rng.choice([None, 1, 3]))
            if "fn_default_used" in self.feats and all(d is None for _, d in attrs.values()):
                attrs["alpha"] = ("f", 2.0)
        sc = _Scope("fn")
        for dt, shape in in_types:
            self.add_input(sc, dt, shape, self.fresh("fx"))
        outs = body_hook(sc) if body_hook is not None else None
        if outs is None:
            x = sc.inputs[0]
            cur = x
            if "alpha" in attrs:
                c = self.emit(sc, "Constant", [], {"value_float": ir.RefAttr("value_float", "alpha", ir.AttributeType.FLOAT)}, [(F32, ())])[0]
                cur = self.emit(sc, rng.choice(["Mul", "Add"]), [cur, c], None, [(F32, (2, 3))])[0]
            if "k" in attrs:
                c = self.emit(sc, "Constant", [], {"value_int": ir.RefAttr("value_int", "k", ir.AttributeType.INT)}, [(I64, ())])[0]
                cf = self.emit(sc, "Cast", [c], {"to": int(F32.value)}, [(F32, ())])[0]
                cur = self.emit(sc, "Sub", [cur, cf], None, [(F32, (2, 3))])[0]
            if "fn_nested" in self.feats and self.fns and rng.random() < 0.8:
                self.gen_call(sc, rng, caller_attrs=attrs)
            for _ in range(rng.randint(1, 3)):
                self.plain_op(sc, rng)
            locals_ = [t for t in sc.pool if t.kind == "node" and t.dt in _NUMERIC]
            if not locals_:
                locals_ = self.emit(sc, "Neg", [x])
            outs = [locals_[-1]] if cur is x else [cur]
            if rng.random() < 0.4 and len(locals_) > 1:
                extra = rng.choice(locals_)
                if extra is not outs[0]:
                    outs.append(extra)
        opsets = {"": self.opset}
        if "unused_opset" in self.feats and rng.random() < 0.5:
            opsets["vf.unused"] = 1
            self.model_opsets["vf.unused"] = 1
        g = ir.Graph([t.v for t in sc.inputs], [t.v for t in outs], nodes=sc.nodes, opset_imports=opsets,
                     name=self.fresh("fg"))
        for n in ir.traversal.RecursiveGraphIterator(g):  # calls may sit inside control-flow subgraphs of the body
            if n.domain:
                g.opset_imports[n.domain] = 1
        decl = []
        for an, (kind, default) in attrs.items():
            if kind in self._ATTR_KINDS_MORE:  # 's' / 'is' / 'fs' (fn_attr_falsy): the default is stored as given
                decl.append(ir.Attr(an, self._ATTR_KINDS_MORE[kind], default))
                continue
            ty = ir.AttributeType.FLOAT if kind == "f" else ir.AttributeType.INT
            decl.append(ir.Attr(an, ty, default if default is None else (float(default) if kind == "f" else int(default))))
        fn = _Fn(name or self.fresh("fn"), domain, overload, list(in_types), [(t.dt, t.shape) for t in outs], attrs)
        fn.function = ir.Function(domain, fn.name, overload, graph=g, attributes=decl)
        if "metadata" in self.feats and self.cos.random() < 0.5:
            fn.function.doc_string = "function doc"
        self.functions.append(fn.function)
        self.model_opsets[domain] = 1
        return fn

    def gen_call(self, sc: _Scope, rng, fn: _Fn | None = None, caller_attrs: dict | None = None,
                 attr_values: dict | None = None, inputs: Sequence[_TV] | None = None, names=None, typed=False) -> list[_TV] | None:
        """A call of a model-local function.  Inside a function body (``caller_attrs``) attributes may
        be forwarded by reference."""
        fn = fn or rng.choice(self.fns)
        if inputs is None:
            inputs = [self.need(sc, rng, dt, shape) for dt, shape in fn.in_types]
        attrs: dict = {}
        for an, (kind, default) in fn.attrs.items():
            if attr_values is not None and an in attr_values:
                if attr_values[an] is not None:
                    attrs[an] = attr_values[an]
                continue
            ty = ir.AttributeType.FLOAT if kind == "f" else ir.AttributeType.INT
            if caller_attrs and an in caller_attrs and caller_attrs[an][0] == kind and rng.random() < 0.6:
                attrs[an] = ir.RefAttr(an, an, ty)
            elif default is not None and "fn_default_used" in self.feats and rng.random() < 0.5:
                continue  # rely on the default
            else:
                attrs[an] = rng.choice([0.25, 1.5, 3.0, -1.0]) if kind == "f" else rng.choice([0, 2, 5])
        if self._dup_key(sc, f"{fn.domain}::{fn.name}:{fn.overload}", list(inputs), attrs):
            return None
        return self.emit(sc, fn.name, list(inputs), attrs, list(fn.out_types), domain=fn.domain, overload=fn.overload,
                         names=names, typed=typed)

    # ---- planters: one self-contained pattern per feature, appended to the main graph -----------
    def _x(self, rng, dt=F32, shape=(2, 3)) -> _TV:
        """A live main-graph value of the given type that depends on a graph input if possible."""
        cands = [t for t in self.main.pool if t.dt == dt and t.shape == tuple(shape) and id(t.v) not in self.dead
                 and t.kind in ("in", "node")]
        return rng.choice(cands) if cands else self.need(self.main, rng, dt, shape)

    def _tv_of(self, value: ir.Value) -> _TV | None:
        for t in self.main.pool:
            if t.v is value:
                return t
        return None

    def plant_dup_expr(self, rng):
        dec = random.Random(rng.random())  # variant decisions: independent of pool sizes
        m = self.main
        cands = [n for n in m.nodes if n.op_type not in ("If", "Loop") and all(self._tv_of(o) for o in n.outputs)
                 and not any(id(o) in self.dead for o in n.outputs)]
        for _ in range(dec.choice([1, 1, 2])):
            if cands and dec.random() < 0.7:
                n = rng.choice(cands)
                outs = [(self._tv_of(o).dt, self._tv_of(o).shape) for o in n.outputs]
                dup = self.emit(m, n.op_type, list(n.inputs), {a.name: a for a in n.attributes.values()}, outs,
                                domain=n.domain, overload=n.overload)
                self.observe += [self._tv_of(o) for o in n.outputs] + dup
            else:
                x = self._x(rng)
                op = dec.choice(["Neg", "Abs", "Relu"])
                self.observe += self.emit(m, op, [x]) + self.emit(m, op, [x])
        if dec.random() < 0.35:  # the first twin is an intermediate value without value_info, the second a typed output
            x = self._x(rng)
            a = self.emit(m, "Abs", [x], untyped=True)[0]
            self.observe += self.emit(m, "Neg", [a])
            self.observe += self.emit(m, "Abs", [x], typed=True)
        if dec.random() < 0.4:  # a duplicate whose twin is consumed only inside a subgraph
            x = self._x(rng)
            a, b = self.emit(m, "Abs", [x])[0], self.emit(m, "Abs", [x])[0]
            self.observe.append(a)
            self.observe += self.gen_if(m, rng, then_hook=lambda s: [self.emit(s, "Neg", [b], typed=True)[0]],
                                        out_types=[(F32, (2, 3))])

    def plant_near_dup_attr(self, rng):
        dec = random.Random(rng.random())  # variant decisions: independent of pool sizes
        m = self.main
        variants = ["cast", "concat", "const", "maxpool", "bn", "consts"]
        fn = next((f for f in self.fns if f.attrs.get("alpha")), None)
        if fn is not None:
            variants += ["call", "call"]
        for variant in dec.sample(variants, 2):
            if variant == "cast":
                x = self._x(rng)
                self.observe += self.emit(m, "Cast", [x], {"to": int(I64.value)}, [(I64, x.shape)])
                self.observe += self.emit(m, "Cast", [x], {"to": int(I32.value)}, [(I32, x.shape)])
            elif variant == "concat":
                a, b = self._x(rng), self._x(rng)
                self.observe += self.emit(m, "Concat", [a, b], {"axis": 0}, [(F32, (4, 3))])
                self.observe += self.emit(m, "Concat", [a, b], {"axis": 1}, [(F32, (2, 6))])
            elif variant == "const":
                x = self._x(rng)
                for val in (1.5, 2.5):
                    c = self.const(m, rng, F32, (), np.array(val, np.float32), form="value_float")
                    self.observe += self.emit(m, "Add", [x, c])
            elif variant == "consts":
                for vals in ([1, 2, 3], [1, 2, 4]):
                    c = self.const(m, rng, I64, (3,), np.array(vals, np.int64), form="value_ints")
                    self.observe += self.emit(m, "Neg", [c], None, [(I64, (3,))])
            elif variant == "maxpool":
                x = self.need(m, rng, F32, (1, 2, 4))
                self.observe += self.emit(m, "MaxPool", [x], {"kernel_shape": [2]}, [(F32, (1, 2, 3))])
                self.observe += self.emit(m, "MaxPool", [x], {"kernel_shape": [3]}, [(F32, (1, 2, 2))])
            elif variant == "bn":
                x, ws = self._x(rng), self._bn_weights(rng)
                for eps in (1e-5, 0.5):
                    self.observe += self.emit(m, "BatchNormalization", [x, *ws], {"epsilon": eps})
            else:
                ins = [self.need(m, rng, dt, shape) for dt, shape in fn.in_types]
                for alpha in (1.5, 3.0):
                    self.observe += self.gen_call(m, rng, fn, attr_values={"alpha": alpha}, inputs=ins) or []

    def _bn_weights(self, rng) -> list[_TV]:
        m = self.main
        ws = [self.add_init(m, rng, F32, (3,)) for _ in range(3)]
        ws.append(self.add_init(m, rng, F32, (3,), np.abs(self.rand_array(rng, F32, (3,))) + np.float32(0.5)))
        return ws

    def plant_near_dup_outcount(self, rng):
        dec = random.Random(rng.random())  # variant decisions: independent of pool sizes
        m = self.main  # opset 17: Split-13 divides by the number of outputs
        x = self._x(rng, F32, (6,))
        first, second = dec.choice([(3, 2), (3, 2), (2, 3)])
        for parts in (first, second):
            self.observe += self.emit(m, "Split", [x], {"axis": 0} if dec.random() < 0.5 else None,
                                      [(F32, (6 // parts,))] * parts, typed=True)
        for ops, n2 in ((("Dropout",), 2), (("MaxPool",), 2)):
            if dec.random() < 0.4:
                if ops[0] == "Dropout":
                    y = self._x(rng)
                    order = dec.choice([(2, 1), (1, 2)])
                    for n in order:
                        self.observe += self.emit(m, "Dropout", [y], None, [(F32, (2, 3)), (BOOL, (2, 3))][:n])
                else:
                    y = self.need(m, rng, F32, (1, 2, 4))
                    for n in dec.choice([(2, 1), (1, 2)]):
                        self.observe += self.emit(m, "MaxPool", [y], {"kernel_shape": [2]},
                                                  [(F32, (1, 2, 3)), (I64, (1, 2, 3))][:n])

    def plant_near_dup_default(self, rng):
        dec = random.Random(rng.random())  # variant decisions: independent of pool sizes
        m = self.main
        variant = dec.choice(["split", "maxpool", "cast"])
        if variant == "split":
            x = self._x(rng, F32, (6,))
            self.observe += self.split_node(m, rng, x, 0, 2, explicit_axis=True)
            self.observe += self.split_node(m, rng, x, 0, 2, explicit_axis=False)
        elif variant == "maxpool":
            x = self.need(m, rng, F32, (1, 2, 4))
            self.observe += self.emit(m, "MaxPool", [x], {"kernel_shape": [2], "ceil_mode": 0}, [(F32, (1, 2, 3))])
            self.observe += self.emit(m, "MaxPool", [x], {"kernel_shape": [2]}, [(F32, (1, 2, 3))])
        else:
            x = self._x(rng)
            a1 = {"to": int(I64.value)}
            a2 = dict(a1, saturate=1) if self.opset >= 19 else dict(a1)
            self.observe += self.emit(m, "Cast", [x], a1, [(I64, (2, 3))])
            self.observe += self.emit(m, "Cast", [x], a2, [(I64, (2, 3))])

    def plant_signed_zero(self, rng):
        dec = random.Random(rng.random())  # variant decisions: independent of pool sizes
        m = self.main
        one = self.const(m, rng, F32, (), np.array(1.0, np.float32), form="value_float")
        zeros = [0.0, -0.0] if dec.random() < 0.5 else [-0.0, 0.0]
        for z in zeros:
            c = self.const(m, rng, F32, (), np.array(z, np.float32), form="value_float")
            self.observe += self.emit(m, "Div", [one, c], None, [(F32, ())])

    def plant_dup_init(self, rng):
        dec = random.Random(rng.random())  # variant decisions: independent of pool sizes
        m = self.main
        dt, shape = dec.choice([(F32, (2, 3)), (F32, (3,)), (I64, (2, 3)), (F32, ())])
        arr = self.rand_array(rng, dt, shape)
        ws = [self.add_init(m, rng, dt, shape, arr.copy()) for _ in range(dec.choice([2, 2, 3]))]
        x = self._x(rng, dt, (2, 3))
        for w, op in zip(ws, ["Add", "Mul", "Sub"]):
            self.observe += self.emit(m, op, [x, w], None, [(dt, (2, 3))])
        if dec.random() < 0.3:  # a duplicate that is captured by a subgraph only
            w = self.add_init(m, rng, dt, shape, arr.copy())
            self.observe += self.gen_if(m, rng, then_hook=lambda s: [self.emit(s, "Add", [x, w], None, [(dt, (2, 3))], typed=True)[0]],
                                        out_types=[(dt, (2, 3))])

    def plant_near_dup_init_dtype(self, rng):
        dec = random.Random(rng.random())  # variant decisions: independent of pool sizes
        m = self.main
        f = np.array([dec.randint(-8, 8) / 4.0 for _ in range(3)], np.float32)
        a = self.add_init(m, rng, F32, (3,), f)
        b = self.add_init(m, rng, I32, (3,), f.view(np.int32).copy())
        pair = [(a, F32), (b, I32)]
        if dec.random() < 0.5:
            pair.reverse()
        for w, dt in pair:
            self.observe += self.emit(m, dec.choice(["Identity", "Neg"]), [w], None, [(dt, (3,))], typed=True)

    def plant_near_dup_init_shape(self, rng):
        dec = random.Random(rng.random())  # variant decisions: independent of pool sizes
        m = self.main
        dt = dec.choice([F32, I64])
        arr = self.rand_array(rng, dt, (6,))
        shapes = dec.sample([(2, 3), (3, 2), (6,), (1, 6)], 2)
        for shape in shapes:
            w = self.add_init(m, rng, dt, shape, arr.reshape(shape).copy())
            self.observe += self.emit(m, dec.choice(["Identity", "Neg", "Abs"]), [w], None, [(dt, shape)], typed=True)

    def plant_init_is_input(self, rng):
        dec = random.Random(rng.random())  # variant decisions: independent of pool sizes
        m = self.main
        for _ in range(dec.choice([1, 1, 2])):
            w = self.add_init(m, rng, *dec.choice([(F32, (2, 3)), (F32, (3,)), (I64, (2, 3))]))
            x = self._x(rng, w.dt, (2, 3))
            self.observe += self.emit(m, "Add", [x, w], None, [(w.dt, (2, 3))])
            self.init_inputs.append(w)

    def plant_near_dup_const_rank(self, rng):
        """One-element tensors with the same dtype and bytes but different rank, each followed by
        rank-sensitive consumers (Shape; a broadcasting Add whose result shape depends on the rank)."""
        dec = random.Random(rng.random())
        m = self.main
        dt = dec.choice([F32, F32, I64])
        val = np.array(dec.choice([2, 3, -1, 5]), dtype=_NP[dt])
        shapes = [(), (1,)] + ([(1, 1)] if dec.random() < 0.4 else [])
        dec.shuffle(shapes)
        as_init = dec.random() < 0.3
        vec = self.need(m, rng, dt, (3,))
        for shape in shapes:
            arr = val.reshape(shape).copy()
            c = self.add_init(m, rng, dt, shape, arr) if as_init else self.const(m, rng, dt, shape, arr, form="value")
            self.observe += self.emit(m, "Shape", [c], None, [(I64, (len(shape),))], typed=True)
            self.observe += self.emit(m, "Add", [vec, c], None, [(dt, _bshape((3,), shape))], typed=True)
            if dec.random() < 0.3:
                self.observe.append(c)

    def plant_dup_init_is_input(self, rng):
        """``w`` is an initializer and a graph input (a default the caller may override); ``v`` is a plain
        initializer with the same dtype, shape and bytes.  Mostly ``w`` is listed first."""
        dec = random.Random(rng.random())
        m = self.main
        dt, shape = dec.choice([(F32, (2, 3)), (F32, (3,)), (I64, (2, 3)), (F32, ())])
        arr = self.rand_array(rng, dt, shape)
        input_first = dec.random() < 0.75
        x = self._x(rng, dt, (2, 3))
        made = []
        for is_input in ([True, False] if input_first else [False, True]):
            w = self.add_init(m, rng, dt, shape, arr.copy())
            if is_input:
                self.init_inputs.append(w)
            made.append(w)
        for w, op in zip(made, dec.sample(["Add", "Mul", "Sub"], 2)):
            self.observe += self.emit(m, op, [x, w], None, [(dt, (2, 3))])

    def plant_fn_called_from_subgraph(self, rng):
        """A model-local function whose ONLY call site is inside a control-flow subgraph: of the body of
        another (used) function, of the main graph, or at the end of a three-deep chain
        main -> A{If: B{If: C}}."""
        dec = random.Random(rng.random())
        m = self.main
        variant = dec.choice(["in_fn_branch", "in_fn_branch", "chain3", "in_main_branch", "in_main_loop"])

        def leaf() -> _Fn:
            op = dec.choice(["Neg", "Abs", "Relu"])

            def body(s):
                t = self.emit(s, op, [s.inputs[0]])[0]
                return [self.emit(s, "Add", [t, s.inputs[0]])[0]]
            return self.gen_function(rng, in_types=[(F32, (2, 3))], with_attrs=False, body_hook=body)

        def caller_of(callee: _Fn) -> _Fn:
            """f(x, cond) = If(cond){callee(x...)}{Relu(x)} - the call is not a top-level node of the body."""
            flip = dec.random() < 0.4

            def body(s):
                x, cond = s.inputs[0], s.inputs[1]

                def calls(b):
                    return [self.gen_call(b, rng, callee, inputs=[x, cond][: len(callee.in_types)], typed=True)[0]]

                def plain(b):
                    return [self.emit(b, "Relu", [x], typed=True)[0]]
                hooks = [plain, calls] if flip else [calls, plain]
                out = self.gen_if(s, rng, then_hook=hooks[0], else_hook=hooks[1], out_types=[(F32, (2, 3))])[0]
                return [self.emit(s, "Neg", [out])[0]] if dec.random() < 0.5 else [out]
            return self.gen_function(rng, in_types=[(F32, (2, 3)), (BOOL, ())], with_attrs=False, body_hook=body)

        x = self._x(rng)
        if variant in ("in_fn_branch", "chain3"):
            fn = caller_of(leaf())
            if variant == "chain3":
                fn = caller_of(fn)
            cond = self.bool_scalar(m, rng)
            self.observe += self.gen_call(m, rng, fn, inputs=[x, cond]) or []
        elif variant == "in_main_branch":
            callee = leaf()
            self.observe += self.gen_if(m, rng, then_hook=lambda b: [self.gen_call(b, rng, callee, inputs=[x], typed=True)[0]],
                                        out_types=[(F32, (2, 3))])
        else:
            callee = leaf()
            self.observe += self.gen_loop(m, rng, v0=x, body_hook=lambda b, v_in: self.gen_call(
                b, rng, callee, inputs=[v_in], typed=True)[0])

    # operator attributes that HAVE a default: a reference that is resolved wrongly (or not at all) still gives a
    # loadable model that computes something else
    _DEFAULTED_FLOAT_ATTRS = (("LeakyRelu", "alpha"), ("Elu", "alpha"), ("ThresholdedRelu", "alpha"), ("Celu", "alpha"),
                              ("HardSigmoid", "alpha"), ("HardSigmoid", "beta"), ("Selu", "gamma"), ("Selu", "alpha"))

    def plant_fn_attr_forward_renamed(self, rng):
        """A chain main -> F_top -> ... -> F_leaf (2-3 functions).  Every level declares 1-2 float attribute
        parameters (sometimes an int one as well) and hands them to the next level BY REFERENCE, under parameter
        names that differ from level to level (or are the same names crosswise: ``G<a = @b, b = @a>``); the leaf uses
        them on operator attributes that have defaults (sometimes inside an If branch of its body, sometimes through
        ``Constant<value_float = @p>``).  Intermediate levels may use a parameter themselves and may pass one
        parameter as a literal; the leaf / an intermediate function may also be called from the main graph."""
        dec = random.Random(rng.random())  # variant decisions: independent of pool sizes
        m = self.main
        depth = dec.choice([2, 2, 2, 3])
        n_float = dec.choice([1, 2, 2])
        with_int = dec.random() < 0.3
        in_branch = dec.random() < 0.25
        words = ["a", "b", "slope", "gain", "alpha", "beta", "p", "q", "scale", "bias"]
        in_types = [(F32, (2, 3))] + ([(BOOL, ())] if in_branch else [])
        FLOAT, INT = ir.AttributeType.FLOAT, ir.AttributeType.INT

        def declared(names) -> dict:
            d = {n: ("f", None) for n in names}
            if with_int:
                d["axis_" + names[0]] = ("i", None)
            return d

        # ---- the leaf
        names = dec.sample(words, n_float)
        uses = [dec.choice(self._DEFAULTED_FLOAT_ATTRS) if dec.random() < 0.8 else ("Constant", "value_float") for _ in names]

        def use_all(s, cur, names, uses):
            for an, (op, attr) in zip(names, uses):
                ref = ir.RefAttr(attr, an, FLOAT)
                if op == "Constant":
                    c = self.emit(s, "Constant", [], {attr: ref}, [(F32, ())])[0]
                    cur = self.emit(s, "Mul", [cur, c], typed=s.kind == "branch")[0]
                else:
                    cur = self.emit(s, op, [cur], {attr: ref}, typed=s.kind == "branch")[0]
            if with_int:
                cur = self.emit(s, "Softmax", [cur], {"axis": ir.RefAttr("axis", "axis_" + names[0], INT)}, typed=s.kind == "branch")[0]
            return cur

        def leaf_body(s, names=names, uses=uses):
            x = s.inputs[0]
            if not in_branch:
                return [use_all(s, x, names, uses)]
            hooks = [lambda b: [use_all(b, x, names, uses)], lambda b: [self.emit(b, "Neg", [x], typed=True)[0]]]
            if dec.random() < 0.3:
                hooks.reverse()
            return [self.gen_if(s, rng, then_hook=hooks[0], else_hook=hooks[1], out_types=[(F32, (2, 3))])[0]]
        chain = [self.gen_function(rng, in_types=in_types, attrs=declared(names), body_hook=leaf_body)]
        level_names = [names]

        # ---- the callers, bottom-up
        for _ in range(depth - 1):
            callee, callee_names = chain[-1], level_names[-1]
            r = dec.random()
            if r < 0.2:
                names = list(callee_names)  # the same names ...
            elif r < 0.45 and n_float == 2:
                names = list(callee_names)
            else:
                names = dec.sample(words, n_float)  # ... or others (may overlap partly)
            # which of the caller's parameters feeds the callee's parameter i
            perm = list(range(n_float))
            if n_float == 2 and (dec.random() < 0.5 or (r >= 0.2 and r < 0.45)):
                perm.reverse()
            literal = dec.randrange(n_float) if n_float == 2 and dec.random() < 0.25 else None
            own_use = dec.choice(self._DEFAULTED_FLOAT_ATTRS) if dec.random() < 0.4 else None
            forwarded = {}
            for i, cn in enumerate(callee_names):
                forwarded[cn] = dec.choice([0.75, 1.25, -0.5]) if i == literal else ir.RefAttr(cn, names[perm[i]], FLOAT)
            if with_int:
                forwarded["axis_" + callee_names[0]] = ir.RefAttr("axis_" + callee_names[0], "axis_" + names[0], INT)

            def body(s, callee=callee, forwarded=forwarded, names=names, own_use=own_use):
                x = s.inputs[0]
                t = self.emit(s, dec.choice(["Neg", "Abs"]), [x])[0]
                if own_use is not None:
                    t = self.emit(s, own_use[0], [t], {own_use[1]: ir.RefAttr(own_use[1], dec.choice(names), FLOAT)})[0]
                y = self.gen_call(s, rng, callee, attr_values=forwarded, inputs=[t] + list(s.inputs[1:]))[0]
                return [self.emit(s, "Add", [y, x])[0]]
            chain.append(self.gen_function(rng, in_types=in_types, attrs=declared(names), body_hook=body))
            level_names.append(names)

        # ---- call sites in the main graph: concrete, pairwise different values
        x = self._x(rng)
        extra = [self.bool_scalar(m, rng)] if in_branch else []

        def concrete(fn_names) -> dict:
            vals = dec.sample([0.3, 1.5, 2.5, -0.5, 0.6], len(fn_names))
            d = dict(zip(fn_names, vals))
            if with_int:
                d["axis_" + fn_names[0]] = 0
            return d
        self.observe += self.gen_call(m, rng, chain[-1], attr_values=concrete(level_names[-1]), inputs=[x] + extra) or []
        if dec.random() < 0.4:  # a lower level is called directly as well
            k = dec.randrange(depth - 1)
            self.observe += self.gen_call(m, rng, chain[k], attr_values=concrete(level_names[k]), inputs=[x] + extra) or []

    def plant_fn_scope_name_reuse(self, rng):
        self._plant_fn_name_reuse(rng, formals=False)

    def plant_fn_subgraph_formal_name_reuse(self, rng):
        self._plant_fn_name_reuse(rng, formals=True)

    def _plant_fn_name_reuse(self, rng, formals: bool):
        """A function f(fx, c) whose body holds control flow (If / Loop / If in If, sometimes with a subgraph
        initializer) that computes with its OWN values next to the captured formal input.  Functions are separate name
        spaces, so the values defined inside f - in the nested bodies above all, but also at the top level of the
        body and its formal inputs/outputs - reuse names that are in use where f is called: the actual argument,
        the call's outputs, the condition, earlier and later main-graph values, graph inputs / initializers, a name
        local to a sibling subgraph.  f is called from the main graph, from an If branch of the main graph, or
        from another function g whose own names are reused as well (only g is called from the main graph).
        ``formals``: the reused names go to what the nested bodies declare (Loop-body inputs, subgraph
        initializers) instead of to the node outputs inside them."""
        dec = random.Random(rng.random())  # variant decisions: independent of pool sizes
        m = self.main
        T = (F32, (2, 3))
        kind = dec.choice(["loop", "loop", "if_init", "if_init", "loop_init"] if formals else ["if", "if", "loop", "if_if", "if_init"])
        call_from = dec.choice(["main", "main", "main_branch", "fn"])

        def inner_if(s, x, deep: bool, init: bool):
            def then(b):
                t = self.emit(b, dec.choice(["Neg", "Abs"]), [x], typed=True)[0]  # the branch's own value ...
                o = self.emit(b, dec.choice(["Mul", "Sub"]), [t, x], typed=True)[0]  # ... next to the captured one
                if init:
                    w = self.add_init(b, rng, F32, dec.choice([(2, 3), (3,)]))
                    o = self.emit(b, "Add", [o, w], typed=True)[0]
                if deep:
                    o = inner_if(b, o, False, False)
                    o = self.emit(b, "Sub", [o, x], typed=True)[0]
                return [o]

            def other(b):
                return [self.emit(b, "Relu", [x], typed=True)[0]]
            hooks = [then, other] if dec.random() < 0.7 else [other, then]
            return self.gen_if(s, rng, then_hook=hooks[0], else_hook=hooks[1], out_types=[T])[0]

        def body(s):
            x = s.inputs[0]
            if dec.random() < 0.5:
                x = self.emit(s, "Abs", [x])[0]  # a top-level value of the body that the nested bodies capture
            if kind in ("loop", "loop_init"):
                def loop_body(b, carried):
                    t = self.emit(b, "Add", [carried, x], typed=True)[0]
                    if kind == "loop_init":
                        t = self.emit(b, "Sub", [t, self.add_init(b, rng, F32, dec.choice([(2, 3), (3,)]))], typed=True)[0]
                    return self.emit(b, dec.choice(["Mul", "Sub"]), [t, x], typed=True)[0]
                out = self.gen_loop(s, rng, body_hook=loop_body, v0=x)[0]
            else:
                out = inner_if(s, x, kind == "if_if", kind == "if_init")
            return [self.emit(s, "Neg", [out])[0]] if dec.random() < 0.5 else [out]
        f = self.gen_function(rng, in_types=[T, (BOOL, ())], with_attrs=False, body_hook=body)

        g = None
        if call_from == "fn":
            def g_body(s):
                a = self.emit(s, dec.choice(["Abs", "Neg"]), [s.inputs[0]])[0]
                y = self.gen_call(s, rng, f, inputs=[a, s.inputs[1]])[0]
                return [self.emit(s, "Add", [y, a])[0]]
            g = self.gen_function(rng, in_types=[T, (BOOL, ())], with_attrs=False, body_hook=g_body)

        # ---- the call site and the names around it
        before = self.emit(m, "Relu", [self._x(rng)])[0]  # visible at the call site, not an argument
        arg = self.emit(m, dec.choice(["Abs", "Neg"]), [self._x(rng)])[0]
        cond = self.bool_scalar(m, rng)
        target = g or f
        call_out_names: list[str] = []
        if call_from == "main_branch":
            def calls(b):
                made = self.gen_call(b, rng, target, inputs=[arg, cond], typed=True)
                call_out_names.extend(t.v.name for t in made)
                return [made[0]]
            outs = self.gen_if(m, rng, then_hook=calls, out_types=[T])
        else:
            outs = self.gen_call(m, rng, target, inputs=[arg, cond]) or []
            call_out_names.extend(t.v.name for t in outs)
        self.observe += outs
        after = self.emit(m, "Neg", [arg])[0]  # defined after the call
        sibling = self.fresh("t")  # local to a later sibling subgraph of the main graph

        def sib(b):
            t = self.emit(b, "Relu", [arg], names=[sibling])[0]
            return [self.emit(b, "Neg", [t], typed=True)[0]]
        self.observe += self.gen_if(m, rng, then_hook=sib, out_types=[T])
        self.observe.append(after)
        pool = [before.v.name, after.v.name, cond.v.name, sibling] + call_out_names
        # (drawn from a generator of its own: what the rest of ``dec`` decides must not depend on the size of the pool)
        pool += [t.v.name for t in random.Random(dec.random()).sample(m.inputs + m.inits, min(2, len(m.inputs + m.inits)))]

        # ---- reuse them inside the functions: every name at most once per function (its scopes stay SSA)
        def reuse(function: ir.Function, actual: str, names: list[str]) -> None:
            # which values: depends on the structure of the function only; which names: a generator of its own
            # (the number of distinct names in the pool varies with the rest of the model)
            r_sel, r_names = random.Random(dec.random()), random.Random(dec.random())
            nested, top = [], []
            for sub in function.subgraphs():
                if formals:
                    nested += list(sub.inputs) + list(sub.initializers.values())
                else:
                    nested += [o for n in sub for o in n.outputs]
            top += list(function.inputs) + [o for n in function for o in n.outputs]
            r_sel.shuffle(nested)
            r_sel.shuffle(top)
            chosen = nested[: r_sel.choice([1, 2, 3])] + [v for v in top if r_sel.random() < 0.4]
            # the key pattern first: something defined in a nested body is named like the actual argument
            first = r_names.random() < 0.75
            names = list(dict.fromkeys(n for n in names if n and n != actual))
            r_names.shuffle(names)
            names.insert(0 if first else r_names.randrange(len(names) + 1), actual)
            for v, name in zip(chosen, names):
                v.name = name
        if g is not None:
            reuse(g.function, arg.v.name, pool)
            inner_arg = next(n for n in g.function if n.domain == f.domain and n.op_type == f.name).inputs[0]
            reuse(f.function, inner_arg.name, [o.name for n in g.function for o in n.outputs] +
                  [i.name for i in g.function.inputs] + pool)
        else:
            reuse(f.function, arg.v.name, pool)

    def plant_out_alias_input(self, rng):
        dec = random.Random(rng.random())  # variant decisions: independent of pool sizes
        ins = [t for t in self.main.inputs if t.dt != BOOL] or self.main.inputs
        self.extra_outputs.append(rng.choice(ins))
        if dec.random() < 0.3 and self.init_inputs:
            self.extra_outputs.append(rng.choice(self.init_inputs))

    def plant_out_dup(self, rng):
        dec = random.Random(rng.random())  # variant decisions: independent of pool sizes
        self.dup_outputs = dec.choice([1, 1, 2])

    def plant_out_init(self, rng):
        dec = random.Random(rng.random())  # variant decisions: independent of pool sizes
        m = self.main
        w = rng.choice(m.inits) if m.inits and dec.random() < 0.6 else self.add_init(m, rng, F32, (2, 3))
        self.extra_outputs.append(w)

    def plant_unused_node(self, rng):
        dec = random.Random(rng.random())  # variant decisions: independent of pool sizes
        m = self.main
        x = self._x(rng)
        d1 = self.emit(m, "Neg", [x])[0]
        self.dead.add(id(d1.v))
        if dec.random() < 0.6:
            d2 = self.emit(m, "Abs", [d1])[0]
            self.dead.add(id(d2.v))
        if dec.random() < 0.5:
            c = self.const(m, rng, F32, (3,))
            self.dead.add(id(c.v))
        if dec.random() < 0.4:  # an unused node inside a branch
            def hook(s):
                junk = self.emit(s, "Relu", [x])[0]
                self.dead.add(id(junk.v))
                return [self.emit(s, "Abs", [x], typed=True)[0]]
            self.observe += self.gen_if(m, rng, then_hook=hook, out_types=[(F32, (2, 3))])

    def plant_unused_fn(self, rng):
        dec = random.Random(rng.random())  # variant decisions: independent of pool sizes
        self.gen_function(rng)  # defined, never called (not registered in self.fns)

    def plant_unused_opset(self, rng):
        dec = random.Random(rng.random())  # variant decisions: independent of pool sizes
        self.model_opsets["vf.unused"] = 1
        if dec.random() < 0.4:
            self.model_opsets["ai.onnx.ml"] = 3

    def plant_unused_init(self, rng):
        dec = random.Random(rng.random())  # variant decisions: independent of pool sizes
        w = self.add_init(self.main, rng, *dec.choice([(F32, (2, 3)), (I64, (3,))]))
        self.dead.add(id(w.v))

    def plant_identity_chain(self, rng):
        dec = random.Random(rng.random())  # variant decisions: independent of pool sizes
        m = self.main
        y = self._x(rng)
        y = self.emit(m, "Neg", [y])[0] if dec.random() < 0.5 else y
        cur = y
        for _ in range(dec.randint(1, 3)):
            cur = self.emit(m, "Identity", [cur])[0]
        z = self.emit(m, "Abs", [cur])[0]
        self.observe.append(z)
        self.observe += self.emit(m, "Identity", [z])  # Identity(node output) as graph output
        if dec.random() < 0.5:
            self.observe.append(y)

    def plant_identity_io(self, rng):
        dec = random.Random(rng.random())  # variant decisions: independent of pool sizes
        m = self.main
        ins = [t for t in m.inputs if t.dt != BOOL] or m.inputs
        x = rng.choice(ins)
        self.observe += self.emit(m, "Identity", [x], None, [(x.dt, x.shape)], typed=True)
        if dec.random() < 0.6:
            w = self.add_init(m, rng, F32, (3,))
            self.observe += self.emit(m, "Identity", [w], None, [(F32, (3,))], typed=True)
        if dec.random() < 0.4:
            self.observe += self.emit(m, "Identity", [x], None, [(x.dt, x.shape)], typed=True)

    def _identity_of_outer(self, rng, dec, outer: _TV, allow_loop: bool = True):
        """An If branch (or Loop body) whose output is ``Identity(outer)``."""
        m = self.main

        def ident(s):
            return self.emit(s, "Identity", [outer], None, [(outer.dt, outer.shape)], typed=True)[0]
        if allow_loop and dec.random() < 0.3:
            self.observe += self.gen_loop(m, rng, v0=self._x(rng, outer.dt, outer.shape),
                                          body_hook=lambda s, v_in: ident(s))
        else:
            hooks = [lambda s: [ident(s)], None]
            if dec.random() < 0.4:
                hooks.reverse()
            self.observe += self.gen_if(m, rng, then_hook=hooks[0], else_hook=hooks[1],
                                        out_types=[(outer.dt, outer.shape)])

    def _identity_named_like_earlier_local(self, rng, dec, src: _TV):
        """If(...) with a branch-local value named N, *then* ``N = Identity(src)`` as graph output: legal,
        because N is defined in the main graph after the If (sibling scopes may reuse a name)."""
        shared = self.fresh("y")
        x = self._x(rng)

        def hook(s):
            t = self.emit(s, "Relu", [x], names=[shared])[0]
            return [self.emit(s, "Neg", [t], typed=True)[0]]
        self.observe += self.gen_if(self.main, rng, then_hook=hook, out_types=[(F32, (2, 3))])
        self.observe += self.emit(self.main, "Identity", [src], None, [(src.dt, src.shape)], names=[shared], typed=True)

    def plant_identity_io_shadow(self, rng):
        dec = random.Random(rng.random())
        m = self.main
        ins = [t for t in m.inputs if t.dt != BOOL]
        src = rng.choice(ins) if dec.random() < 0.6 else self.add_init(m, rng, F32, (3,))
        self._identity_named_like_earlier_local(rng, dec, src)

    def plant_identity_rename_shadow(self, rng):
        dec = random.Random(rng.random())
        src = self.emit(self.main, dec.choice(["Abs", "Neg"]), [self._x(rng)])[0]
        if dec.random() < 0.5:
            self.observe += self.emit(self.main, "Relu", [src])
        self._identity_named_like_earlier_local(rng, dec, src)

    def plant_cse_rename_shadow(self, rng):
        dec = random.Random(rng.random())
        x = self._x(rng)
        op = dec.choice(["Abs", "Neg", "Relu"])
        twin = self.emit(self.main, op, [x])[0]
        self.observe += self.emit(self.main, "Neg", [twin])
        shared = self.fresh("y")

        def hook(s):
            t = self.emit(s, "Relu", [x], names=[shared])[0]
            return [self.emit(s, "Neg", [t], typed=True)[0]]
        self.observe += self.gen_if(self.main, rng, then_hook=hook, out_types=[(F32, (2, 3))])
        self.observe += self.emit(self.main, op, [x], names=[shared], typed=True)

    def plant_identity_outer_branch(self, rng):
        dec = random.Random(rng.random())  # variant decisions: independent of pool sizes
        x = self._x(rng)
        outer = self.emit(self.main, dec.choice(["Abs", "Neg"]), [x])[0]  # a node output of the outer scope
        if dec.random() < 0.5:
            self.observe.append(outer)
        self._identity_of_outer(rng, dec, outer)

    def plant_identity_input_branch(self, rng):
        dec = random.Random(rng.random())  # variant decisions: independent of pool sizes
        m = self.main
        if dec.random() < 0.5:
            ins = [t for t in m.inputs if t.dt in (F32, I64)]
            outer = rng.choice(ins) if ins else self.add_init(m, rng, F32, (2, 3))
        else:
            outer = self.add_init(m, rng, F32, (2, 3))
        self._identity_of_outer(rng, dec, outer, allow_loop=False)

    def plant_identity_in_branch(self, rng):
        dec = random.Random(rng.random())  # variant decisions: independent of pool sizes
        x = self._x(rng)

        def hook(s):
            a = self.emit(s, "Neg", [x])[0]
            i = self.emit(s, "Identity", [a])[0]
            out = self.emit(s, "Abs", [i], typed=True)[0]
            if dec.random() < 0.5:  # Identity(local node output) returned by the branch: legal to eliminate
                out = self.emit(s, "Identity", [out], typed=True)[0]
            return [out]
        self.observe += self.gen_if(self.main, rng, then_hook=hook, out_types=[(F32, (2, 3))])

    def plant_captured_only(self, rng):
        dec = random.Random(rng.random())  # variant decisions: independent of pool sizes
        m = self.main
        x = self._x(rng)
        a = self.emit(m, "Mul", [x, self.need(m, rng, F32, ())])[0]  # used only inside the subgraph below
        if dec.random() < 0.3:
            self.observe += self.gen_loop(m, rng, v0=x, body_hook=lambda s, v_in: self.emit(s, "Add", [v_in, a], typed=True)[0])
        else:
            self.observe += self.gen_if(m, rng, then_hook=lambda s: [self.emit(s, "Neg", [a], typed=True)[0]],
                                        out_types=[(F32, (2, 3))])

    def plant_consts_all_forms(self, rng):
        dec = random.Random(rng.random())  # variant decisions: independent of pool sizes
        m = self.main
        specs = [("value", F32, (4, 4)), ("value", I64, (2, 3)), ("value", F32, ()), ("value_float", F32, ()),
                 ("value_floats", F32, (dec.choice([3, 16, 20]),)), ("value_int", I64, ()),
                 ("value_ints", I64, (dec.choice([2, 16, 17]),)), ("value", F64, (3,)), ("value_floats", F32, (0,))]
        for form, dt, shape in dec.sample(specs, dec.randint(4, len(specs))):
            c = self.const(m, rng, dt, shape, form=form)
            self.observe += self.emit(m, dec.choice(["Neg", "Abs", "Identity"]), [c], None, [(dt, shape)])
            if dec.random() < 0.25:  # the Constant output itself as a graph output (must not be lifted)
                self.observe.append(c)

    def plant_const_in_branch(self, rng):
        dec = random.Random(rng.random())  # variant decisions: independent of pool sizes
        x = self._x(rng)

        def hook(s):
            c1 = self.const(s, rng, F32, (2, 3), form="value")
            c2 = self.const(s, rng, F32, (), form="value_float")
            big = self.const(s, rng, F32, (4, 4), form="value")
            a = self.emit(s, "Add", [x, c1])[0]
            b = self.emit(s, "Mul", [a, c2], typed=True)[0]
            return [b, self.emit(s, "Neg", [big], None, [(F32, (4, 4))], typed=True)[0]]
        self.observe += self.gen_if(self.main, rng, then_hook=hook, out_types=[(F32, (2, 3)), (F32, (4, 4))])

    def plant_subgraph_init(self, rng):
        dec = random.Random(rng.random())  # variant decisions: independent of pool sizes
        x = self._x(rng)
        arr = self.rand_array(rng, F32, (2, 3))

        def hook(s):
            w1 = self.add_init(s, rng, F32, (2, 3), arr.copy())
            w2 = self.add_init(s, rng, F32, (2, 3), arr.copy())  # duplicate inside the subgraph
            a = self.emit(s, "Add", [x, w1])[0]
            return [self.emit(s, "Mul", [a, w2], typed=True)[0]]

        def hook2(s):
            w = self.add_init(s, rng, F32, (2, 3), arr.copy())
            return [self.emit(s, "Sub", [x, w], typed=True)[0]]
        if dec.random() < 0.3:
            self.observe += self.gen_loop(self.main, rng, v0=x, body_hook=lambda s, v_in: self.emit(
                s, "Add", [v_in, self.add_init(s, rng, F32, (2, 3), arr.copy())], typed=True)[0])
        else:
            self.observe += self.gen_if(self.main, rng, then_hook=hook, else_hook=hook2 if dec.random() < 0.6 else None,
                                        out_types=[(F32, (2, 3))])

    def plant_sibling_init_name(self, rng):
        dec = random.Random(rng.random())  # variant decisions: independent of pool sizes
        x = self._x(rng)
        shared = self.fresh("s")

        def then_hook(s):
            w = self.add_init(s, rng, F32, (2, 3), name=shared)
            return [self.emit(s, "Add", [x, w], typed=True)[0]]

        def else_hook(s):
            t = self.emit(s, "Neg", [x], names=[shared])[0]
            return [self.emit(s, "Abs", [t], typed=True)[0]]
        hooks = [then_hook, else_hook]
        if dec.random() < 0.5:
            hooks.reverse()
        self.observe += self.gen_if(self.main, rng, then_hook=hooks[0], else_hook=hooks[1], out_types=[(F32, (2, 3))])

    def plant_optional_io(self, rng):
        dec = random.Random(rng.random())  # variant decisions: independent of pool sizes
        m = self.main
        x = self._x(rng)
        hi, lo = self.need(m, rng, F32, ()), self.need(m, rng, F32, ())
        forms = [[x, None, hi], [x, None, None], [x, lo, None], [x], [x, lo, hi]]
        for ins in dec.sample(forms, 2):
            self.observe += self.emit(m, "Clip", ins)
        v = dec.choice(["mask_unused", "mask_used", "ratio", "training_false"])
        if v == "mask_unused":
            y, mask = self.emit(m, "Dropout", [x], None, [(F32, (2, 3)), (BOOL, (2, 3))])
            self.observe.append(y)
            self.dead.add(id(mask.v))
        elif v == "mask_used":
            y, mask = self.emit(m, "Dropout", [x], None, [(F32, (2, 3)), (BOOL, (2, 3))])
            self.observe += [y] + self.emit(m, "Cast", [mask], {"to": int(F32.value)})
        elif v == "ratio":
            ratio = self.const(m, rng, F32, (), np.array(0.5, np.float32))
            self.observe += self.emit(m, "Dropout", [x, ratio])
        else:
            false = self.const(m, rng, BOOL, (), np.array(False), form="value")
            self.observe += self.emit(m, "Dropout", [x, None, false], {"seed": 3})
        p = self.need(m, rng, F32, (1, 2, 4))
        if dec.random() < 0.5:
            y, idx = self.emit(m, "MaxPool", [p], {"kernel_shape": [2]}, [(F32, (1, 2, 3)), (I64, (1, 2, 3))])
            self.observe.append(y)
            if dec.random() < 0.5:
                self.observe.append(idx)
            else:
                self.dead.add(id(idx.v))
        else:
            self.observe += self.emit(m, "MaxPool", [p], {"kernel_shape": [2], "strides": [2]}, [(F32, (1, 2, 2))])
        if dec.random() < 0.6:
            self.observe += self.emit(m, "BatchNormalization", [x, *self._bn_weights(rng)],
                                      {"training_mode": 0} if dec.random() < 0.5 else None)

    def plant_bn_training(self, rng):
        dec = random.Random(rng.random())  # variant decisions: independent of pool sizes
        m = self.main
        x = self._x(rng)
        y, rm, rv = self.emit(m, "BatchNormalization", [x, *self._bn_weights(rng)], {"training_mode": 1},
                              [(F32, (2, 3)), (F32, (3,)), (F32, (3,))])
        self.observe.append(y)
        if dec.random() < 0.7:  # the running statistics are not used
            self.dead.update({id(rm.v), id(rv.v)})
        else:
            self.observe += [rm, rv]

    def _alias_fn(self, rng, dec) -> _Fn:
        def body(s):
            r = self.emit(s, dec.choice(["Relu", "Neg"]), [s.inputs[0]])[0]
            return [r, s.inputs[0]]
        return self.gen_function(rng, body_hook=body, in_types=[(F32, (2, 3))], with_attrs=False)

    def plant_fn_alias(self, rng):
        dec = random.Random(rng.random())  # variant decisions: independent of pool sizes
        fn = self._alias_fn(rng, dec)
        x = self._x(rng)
        x = x if dec.random() < 0.5 else self.emit(self.main, "Abs", [x])[0]
        self.observe += self.gen_call(self.main, rng, fn, inputs=[x]) or []

    def plant_fn_alias_branch(self, rng):
        dec = random.Random(rng.random())  # variant decisions: independent of pool sizes
        fn = self._alias_fn(rng, dec)
        outer = self.emit(self.main, "Abs", [self._x(rng)])[0]

        def hook(s):
            r, alias = self.gen_call(s, rng, fn, inputs=[outer], typed=True)
            return [alias]
        self.observe += self.gen_if(self.main, rng, then_hook=hook, out_types=[(F32, (2, 3))])

    def plant_fn_names_shadow(self, rng):
        dec = random.Random(rng.random())  # variant decisions: independent of pool sizes
        shared = self.fresh("t")

        def body(s):
            t = self.emit(s, "Neg", [s.inputs[0]], names=[shared])[0]
            return [self.emit(s, "Abs", [t])[0]]
        fn = self.gen_function(rng, body_hook=body, in_types=[(F32, (2, 3))], with_attrs=False)
        x = self._x(rng)
        self.observe += self.gen_call(self.main, rng, fn, inputs=[x]) or []

        def hook(s):
            t = self.emit(s, "Relu", [x], names=[shared])[0]
            return [self.emit(s, "Neg", [t], typed=True)[0]]
        self.observe += self.gen_if(self.main, rng, then_hook=hook, out_types=[(F32, (2, 3))])

    def plant_fn_named_identity(self, rng):
        dec = random.Random(rng.random())  # variant decisions: independent of pool sizes
        fn = self.gen_function(rng, name="Identity", domain=FN_DOMAIN2, in_types=[(F32, (2, 3))], with_attrs=False,
                               body_hook=lambda s: [self.emit(s, "Neg", [s.inputs[0]])[0]])
        self.observe += self.gen_call(self.main, rng, fn, inputs=[self._x(rng)]) or []

    # ---- planters added for C05 reach (EXTRA features): strings, optional function inputs, foreign opsets,
    # ---- non-deterministic twins, symbolic dimensions.  Everything they create is taken out of the pool again
    # ---- (``_hide``), so no other planter computes with it
    def _hide(self, sc: _Scope, tvs: Sequence[_TV]) -> list[_TV]:
        for t in tvs:
            if t in sc.pool:
                sc.pool.remove(t)
        return list(tvs)

    _WORDS = ("a", "", "bcd", "hello world", "x y", "0", "Zq", "tab\tsep", "UPPER", "a,b", "ab", "c", "bc")

    def _string_tensor(self, vals: Sequence[str], shape, name: str | None, rng) -> Any:
        data = [v.encode("utf-8") for v in vals]
        if rng.random() < 0.3:  # a proto-backed tensor implementation
            return ir.serde.deserialize_tensor(onnx.helper.make_tensor(name or "", onnx.TensorProto.STRING, list(shape), data))
        return ir.StringTensor(data, shape=ir.Shape([int(d) for d in shape]), name=name)

    def str_const(self, sc: _Scope, rng, vals, form: str, shape=None, name: str | None = None) -> _TV:
        """A Constant node in a string form: ``value_string`` (vals: str), ``value_strings`` (vals: list of str) or
        ``value`` (a STRING tensor of ``shape``)."""
        if form == "value_string":
            shape, attr = (), ir.AttrString("value_string", vals)
        elif form == "value_strings":
            shape, attr = (len(vals),), ir.AttrStrings("value_strings", list(vals))
        else:
            shape = (len(vals),) if shape is None else tuple(shape)
            attr = ir.AttrTensor("value", self._string_tensor(vals, shape, self.fresh("cs"), rng))
        return self._hide(sc, self.emit(sc, "Constant", [], {attr.name: attr}, [(STR, shape)], names=[name] if name else None))[0]

    def add_str_init(self, sc: _Scope, rng, vals: Sequence[str], shape, name: str | None = None) -> _TV:
        name = name or self.fresh("ws")
        v = ir.Value(name=name, const_value=self._string_tensor(vals, shape, name, rng))
        self._set_type(v, STR, shape, required=True)
        tv = _TV(v, STR, shape, "init")
        sc.inits.append(tv)
        return tv  # not in the pool

    def _string_consumers(self, sc: _Scope, rng, dec, c: _TV, typed: bool = False) -> list[_TV]:
        """1-2 consumers of a string value: Identity, Shape, Gather (rank 1), Concat with itself (rank 1), Reshape."""
        menu = ["identity", "identity", "shape"]
        if len(c.shape) == 1 and c.shape[0] >= 1:
            menu += ["gather", "gather", "concat"]
        if c.size >= 2:
            menu += ["reshape"]
        outs: list[_TV] = []
        for kind in dec.sample(menu, dec.choice([1, 1, 2])):
            if kind == "identity":
                outs += self.emit(sc, "Identity", [c], None, [(STR, c.shape)], typed=typed)
            elif kind == "shape":
                outs += self.emit(sc, "Shape", [c], None, [(I64, (len(c.shape),))], typed=typed)
            elif kind == "gather":
                n = c.shape[0]
                idx = [n - 1, 0] if dec.random() < 0.6 else [dec.randrange(n)]
                i = self._hide(sc, [self.const(sc, rng, I64, (len(idx),), np.array(idx, np.int64), form=dec.choice(["value", "value_ints"]))])[0]
                outs += self.emit(sc, "Gather", [c, i], None, [(STR, (len(idx),))], typed=typed)
            elif kind == "concat":
                outs += self.emit(sc, "Concat", [c, c], {"axis": 0}, [(STR, (2 * c.shape[0],))], typed=typed)
            else:
                shp = (c.size, 1) if len(c.shape) == 1 else (c.size,)
                i = self._hide(sc, [self.const(sc, rng, I64, (len(shp),), np.array(shp, np.int64), form="value_ints")])[0]
                outs += self.emit(sc, "Reshape", [c, i], None, [(STR, shp)], typed=typed)
        return self._hide(sc, outs)

    def plant_const_strings(self, rng):
        dec = random.Random(rng.random())  # variant decisions: independent of pool sizes
        m = self.main
        words = list(self._WORDS) + (["héllo"] if dec.random() < 0.08 else [])  # (a non-ASCII string, seldom)

        def strs(n):
            return [dec.choice(words) for _ in range(n)]

        def one(sc, form, typed=False):
            if form == "value_string":
                return self.str_const(sc, rng, dec.choice(words), form)
            if form == "value_strings":
                return self.str_const(sc, rng, strs(dec.choice([1, 2, 3, 3, 16, 17])), form)
            shape = dec.choice([(2,), (3,), (2, 2), (16,), ()])
            return self.str_const(sc, rng, strs(int(np.prod(shape)) if shape else 1), form, shape=shape)
        for form in dec.sample(["value_string", "value_strings", "value_strings", "value"], dec.randint(2, 4)):
            c = one(m, form)
            self.observe += self._string_consumers(m, rng, dec, c)
            if dec.random() < 0.2:  # the Constant output itself as a graph output (must not be lifted)
                self.observe.append(c)
        # twins and near-twins (CSE keys on STRING / STRINGS attribute values)
        if dec.random() < 0.6:
            form = dec.choice(["value_string", "value_strings", "value_strings", "value"])
            n = dec.choice([2, 3, 16])
            base = strs(n)
            other = list(base)
            if dec.random() < 0.6:  # a near-twin: one element differs / the same bytes split differently
                k = dec.randrange(n)
                other[k] = base[k] + "x" if dec.random() < 0.5 else ""
                if other == base:
                    other[k] = "y"
            for vals in (base, other):
                c = self.str_const(m, rng, vals[0] if form == "value_string" else vals, form)
                self.observe += self._hide(m, self.emit(m, "Identity", [c], None, [(STR, c.shape)]))
        if dec.random() < 0.3:  # string constants inside If branches; the branches return strings
            n = dec.choice([2, 3, 16])

            def hook(s):
                c = self.str_const(s, rng, strs(n), dec.choice(["value_strings", "value_strings", "value"]))
                return self._hide(s, self.emit(s, "Identity", [c], None, [(STR, (n,))], typed=True))
            self.observe += self._hide(m, self.gen_if(m, rng, then_hook=hook, else_hook=hook, out_types=[(STR, (n,))]))

    def plant_string_inits(self, rng):
        dec = random.Random(rng.random())  # variant decisions: independent of pool sizes
        m = self.main
        words = [w for w in self._WORDS if w]

        def family(sc, typed=False):
            """Initializers that agree in content, or nearly: same strings (duplicates), one string changed, the same
            bytes split differently, the same strings under another shape."""
            n = dec.choice([2, 2, 3, 4])
            base = [dec.choice(words) for _ in range(n)]
            variants = [("dup", base, (n,))] * dec.choice([1, 2])
            pool = [("changed", base[:-1] + [base[-1] + "z"], (n,)),
                    ("resplit", [base[0] + base[1][:1], base[1][1:]] + base[2:], (n,)),
                    ("reshaped", base, (n, 1)), ("reshaped", base, (1, n))]
            variants += dec.sample(pool, dec.choice([0, 1, 1, 2]))
            dec.shuffle(variants)
            made = []
            for _, vals, shape in [("base", base, (n,))] + variants:
                w = self.add_str_init(sc, rng, vals, shape)
                made += self._string_consumers(sc, rng, dec, w, typed=typed)[:1] if dec.random() < 0.5 else \
                    self._hide(sc, self.emit(sc, "Identity", [w], None, [(STR, shape)], typed=typed))
            return made
        self.observe += family(m)
        if dec.random() < 0.35:  # the same inside a branch (deduplication per graph; lifting to the main graph)
            got: list = []

            def hook(s):
                outs = family(s, typed=True)
                keep = [t for t in outs if t.dt == STR][:2] or outs[:1]
                got.append([(t.dt, t.shape) for t in keep])
                return keep

            def other(s):
                outs = []
                for dt, shape in got[0]:
                    if dt == STR:
                        w = self.add_str_init(s, rng, [dec.choice(words) for _ in range(int(np.prod(shape)))], shape)
                        outs += self._hide(s, self.emit(s, "Identity", [w], None, [(STR, shape)], typed=True))
                    else:
                        c = self._hide(s, [self.const(s, rng, dt, shape)])[0]
                        outs += self._hide(s, self.emit(s, "Identity", [c], None, [(dt, shape)], typed=True))
                return outs
            cond = self.bool_scalar(m, rng)
            # (the then-branch is built first: its output types decide those of the else-branch)
            child = _Scope("branch", m)
            then_outs = hook(child)
            for t in then_outs:
                self._set_type(t.v, t.dt, t.shape, required=True)
            g_then = self.make_graph(child, then_outs, self.fresh("then_g"))
            child = _Scope("branch", m)
            else_outs = other(child)
            for t in else_outs:
                self._set_type(t.v, t.dt, t.shape, required=True)
            g_else = self.make_graph(child, else_outs, self.fresh("else_g"))
            self.observe += self._hide(m, self.emit(m, "If", [cond], {"then_branch": g_then, "else_branch": g_else}, got[0]))

    def plant_fn_optional_inputs(self, rng):
        """F(x, lo, hi): ``lo`` and ``hi`` are used only where an operator input is optional (Clip's min / max),
        directly, through a nested call that forwards them, or captured by a branch of the body.  Call sites omit
        trailing inputs, pass "" in the middle, or pass everything; also from a wrapper function and from a branch."""
        dec = random.Random(rng.random())  # variant decisions: independent of pool sizes
        m = self.main
        T, S = (F32, (2, 3)), (F32, ())
        kind = dec.choice(["direct", "direct", "nested", "nested", "branch"])
        pre = dec.choice(["Abs", "Neg", "Relu", None])

        def clip_body(s):
            x, lo, hi = s.inputs[:3]
            t = self.emit(s, pre, [x])[0] if pre else x
            return [self.emit(s, "Clip", [t, lo, hi])[0]]
        if kind == "direct":
            f = self.gen_function(rng, in_types=[T, S, S], with_attrs=False, body_hook=clip_body)
        elif kind == "nested":
            inner = self.gen_function(rng, in_types=[T, S, S], with_attrs=False, body_hook=clip_body)
            partial = dec.random() < 0.4  # the nested call itself passes fewer inputs than ``inner`` declares

            def outer_body(s):
                x, lo, hi = s.inputs[:3]
                t = self.emit(s, dec.choice(["Abs", "Neg"]), [x])[0]
                y = self.gen_call(s, rng, inner, inputs=[t, lo] if partial else [t, lo, hi])[0]
                return [self.emit(s, "Add", [y, x])[0]]
            f = self.gen_function(rng, in_types=[T, S, S], with_attrs=False, body_hook=outer_body)
        else:
            def branch_body(s):
                x, lo, hi, cond = s.inputs[:4]
                hooks = [lambda b: [self.emit(b, "Clip", [x, lo, hi], typed=True)[0]],
                         lambda b: [self.emit(b, "Neg", [x], typed=True)[0]]]
                if dec.random() < 0.3:
                    hooks.reverse()
                # (gen_if would draw a condition of its own: the formal one is put in place by hand)
                graphs = []
                for which, hook in zip(("then", "else"), hooks):
                    child = _Scope("branch", s)
                    outs = hook(child)
                    graphs.append(self.make_graph(child, outs, self.fresh(which + "_g")))
                return [self.emit(s, "If", [cond], {"then_branch": graphs[0], "else_branch": graphs[1]}, [T])[0]]
            f = None  # built below: the condition must be the LAST input so that lo/hi are not trailing ... see call sites
            f = self.gen_function(rng, in_types=[T, S, S, (BOOL, ())], with_attrs=False, body_hook=branch_body)
        x = self._x(rng)
        lo = self._hide(m, [self.const(m, rng, F32, (), np.array(dec.choice([-1.25, -0.5, 0.0]), np.float32))])[0] if dec.random() < 0.6 \
            else self.add_init(m, rng, F32, (), np.array(dec.choice([-1.25, -0.5, 0.0]), np.float32))
        hi = self._hide(m, [self.const(m, rng, F32, (), np.array(dec.choice([0.75, 1.5, 2.0]), np.float32))])[0] if dec.random() < 0.6 \
            else self.add_init(m, rng, F32, (), np.array(dec.choice([0.75, 1.5, 2.0]), np.float32))
        if kind == "branch":
            cond = self.bool_scalar(m, rng)
            forms = [[x, None, None, cond], [x, lo, None, cond], [x, None, hi, cond], [x, lo, hi, cond]]
        else:
            forms = [[x], [x, lo], [x, None, hi], [x, lo, hi], [x, None, None], [x, lo, None], [x, None]]
        chosen = dec.sample(forms, min(len(forms), dec.choice([2, 3, 3, 4])))
        if dec.random() < 0.35:  # only call sites the reference evaluator can run as well (all inputs listed)
            chosen = [c for c in forms if len(c) == len(f.in_types)][: dec.choice([2, 3])]
        in_branch = dec.random() < 0.3
        for k, ins in enumerate(chosen):
            if in_branch and k == 0:
                self.observe += self._hide(m, self.gen_if(
                    m, rng, then_hook=lambda b, ins=ins: [self.gen_call(b, rng, f, inputs=ins, typed=True)[0]], out_types=[T]))
            else:
                self.observe += self._hide(m, self.gen_call(m, rng, f, inputs=ins) or [])
        if kind != "branch" and dec.random() < 0.35:
            # a wrapper H(x, a): calls F with fewer inputs than F declares / with "" in the middle; H itself is
            # called with and without ``a``
            mid = dec.random() < 0.5

            def wrap_body(s):
                xx, a = s.inputs[:2]
                y = self.gen_call(s, rng, f, inputs=[xx, None, a] if mid else [xx, a])[0]
                return [self.emit(s, "Neg", [y])[0]]
            h = self.gen_function(rng, in_types=[T, S], with_attrs=False, body_hook=wrap_body)
            for ins in dec.sample([[x], [x, hi if mid else lo], [x, None]], 2):
                self.observe += self._hide(m, self.gen_call(m, rng, h, inputs=ins) or [])

    def plant_fn_foreign_opset(self, rng):
        """A function whose body uses operators of ``ai.onnx.ml`` and whose opset_imports name that domain (and
        sometimes an unused one); the model's opset_imports do not.  Called from the main graph, from a branch, or
        only through another function."""
        dec = random.Random(rng.random())  # variant decisions: independent of pool sizes
        m = self.main
        T = (F32, (2, 3))
        ML = "ai.onnx.ml"
        threshold = dec.choice([0.25, -0.5, 1.0])
        scale, offset = dec.choice([2.0, 0.5, -1.0]), dec.choice([0.5, 0.0, -2.0])
        which = dec.choice(["bin", "scaler", "both", "both"])

        def body(s):
            x = s.inputs[0]
            t = x
            if which in ("bin", "both"):
                t = self.emit(s, "Binarizer", [t], {"threshold": threshold}, domain=ML)[0]
            if which in ("scaler", "both"):
                t = self.emit(s, "Scaler", [t], {"offset": [offset], "scale": [scale]}, domain=ML)[0]
            return [self.emit(s, dec.choice(["Add", "Sub", "Mul"]), [t, x])[0]]
        f = self.gen_function(rng, in_types=[T], with_attrs=False, body_hook=body)
        f.function.opset_imports[ML] = 3
        if dec.random() < 0.4:
            f.function.opset_imports["vf.other"] = 2  # imported by the function, used by nothing
        target = f
        if dec.random() < 0.3:  # only reached through a wrapper (which does not import the domain itself)
            def wrap(s):
                y = self.gen_call(s, rng, f, inputs=[s.inputs[0]])[0]
                return [self.emit(s, "Neg", [y])[0]]
            target = self.gen_function(rng, in_types=[T], with_attrs=False, body_hook=wrap)
        x = self._x(rng)
        where = dec.choice(["main", "main", "branch", "both"])
        if where in ("main", "both"):
            self.observe += self._hide(m, self.gen_call(m, rng, target, inputs=[x]) or [])
        if where in ("branch", "both"):
            self.observe += self._hide(m, self.gen_if(
                m, rng, then_hook=lambda b: [self.gen_call(b, rng, target, inputs=[x], typed=True)[0]], out_types=[T]))

    def _all_equal(self, sc: _Scope, a: _TV, b: _TV) -> _TV:
        """int64 scalar: 1 when every element of ``a`` equals the element of ``b``, else 0."""
        e = self._hide(sc, self.emit(sc, "Equal", [a, b], None, [(BOOL, a.shape)]))[0]
        i = self._hide(sc, self.emit(sc, "Cast", [e], {"to": int(I64.value)}, [(I64, a.shape)]))[0]
        return self._hide(sc, self.emit(sc, "ReduceMin", [i], {"keepdims": 0}, [(I64, ())]))[0]

    def _random_pair(self, sc: _Scope, rng, dec, op: str, seeded: bool = False) -> _TV:
        """Two identical nodes of a non-deterministic operator (no seed unless ``seeded``) and all(a == b)."""
        attrs: dict = {}
        ins: list = []
        out = (F32, (4, 4))
        if op in ("RandomNormal", "RandomUniform"):
            attrs["shape"] = [4, 4]
            if op == "RandomNormal" and dec.random() < 0.5:
                attrs["scale"] = 2.0
            if op == "RandomUniform" and dec.random() < 0.5:
                attrs.update(low=-1.0, high=2.0)
        elif op in ("RandomNormalLike", "RandomUniformLike"):
            ins = [self._hide(sc, [self.const(sc, rng, F32, (4, 4), form="value")])[0]]
        elif op == "Multinomial":
            ins = [self._hide(sc, [self.const(sc, rng, F32, (1, 3), np.zeros((1, 3), np.float32), form="value")])[0]]
            attrs["sample_size"] = 40
            out = (I32, (1, 40))
        elif op == "Bernoulli":
            ins = [self._hide(sc, [self.const(sc, rng, F32, (64,), np.full((64,), 0.5, np.float32), form="value")])[0]]
            out = (F32, (64,))
        else:  # Dropout in training mode
            x = self._hide(sc, [self.const(sc, rng, F32, (64,), np.ones((64,), np.float32), form="value")])[0]
            ratio = self._hide(sc, [self.const(sc, rng, F32, (), np.array(0.5, np.float32), form="value_float")])[0]
            training = self._hide(sc, [self.const(sc, rng, BOOL, (), np.array(True), form="value")])[0]
            ins = [x, ratio, training]
            out = (F32, (64,))
        if seeded:
            attrs["seed"] = 3 if op == "Dropout" else 3.0
        a = self._hide(sc, self.emit(sc, op, ins, dict(attrs), [out]))[0]
        b = self._hide(sc, self.emit(sc, op, ins, dict(attrs), [out]))[0]
        return self._all_equal(sc, a, b)

    def _plant_random(self, rng, ops: Sequence[str]):
        dec = random.Random(rng.random())  # variant decisions: independent of pool sizes
        m = self.main
        for op in dec.sample(list(ops), min(len(ops), dec.choice([1, 2]))):
            where = dec.choice(["main", "main", "main", "fn"])
            seeded = dec.random() < 0.12
            if where == "main":
                flag = self._random_pair(m, rng, dec, op, seeded)
                self.observe.append(flag)
            else:  # the twins sit in a function body (merged only after the body has been inlined)
                def body(s, op=op, seeded=seeded):
                    flag = self._random_pair(s, rng, dec, op, seeded)
                    z = self.emit(s, "Mul", [s.inputs[0], self._hide(s, [self.const(s, rng, I64, (), np.array(0, np.int64))])[0]], None, [(I64, ())])[0]
                    return [self.emit(s, "Add", [flag, z], None, [(I64, ())])[0]]
                f = self.gen_function(rng, in_types=[(I64, ())], with_attrs=False, body_hook=body)
                arg = self._hide(m, [self.const(m, rng, I64, (), np.array(dec.choice([1, 2, 5]), np.int64))])[0]
                self.observe += self._hide(m, self.gen_call(m, rng, f, inputs=[arg]) or [])

    def plant_random_twins(self, rng):
        ops = ["RandomNormal", "RandomUniform", "RandomNormalLike", "RandomUniformLike"]
        if random.Random(rng.random()).random() < 0.15:
            ops = ["Multinomial"]  # (no reference implementation: onnxruntime only)
        self._plant_random(rng, ops)

    def plant_random_twins_unlisted(self, rng):
        self._plant_random(rng, ["Bernoulli", "Dropout"])

    def plant_symbolic_dims(self, rng):
        """``y = Identity(a)`` where the declared shapes of ``a`` and ``y`` hold symbolic or unknown dimensions in
        different places (all of them consistent with the real shape (2, 3)); ``y`` is an intermediate value or a
        graph output (which then keeps its symbolic declaration)."""
        dec = random.Random(rng.random())  # variant decisions: independent of pool sizes
        m = self.main

        def shape(kind: str) -> ir.Shape:
            if kind == "named":
                return ir.Shape([self.fresh("vfN"), 3])
            if kind == "named2":
                return ir.Shape([2, self.fresh("vfM")])
            if kind == "unknown":
                return ir.Shape([None, 3])
            if kind == "both":
                return ir.Shape([self.fresh("vfN"), self.fresh("vfM")])
            return ir.Shape([2, 3])
        kinds = ["named", "named2", "unknown", "both", "concrete"]
        for _ in range(dec.choice([1, 2])):
            a = self.emit(m, dec.choice(["Neg", "Abs"]), [self._x(rng)])[0]
            y = self.emit(m, "Identity", [a])[0]
            self._hide(m, [a, y])
            ka, ky = dec.choice(kinds), dec.choice(kinds[:4])
            for v, k in ((a.v, ka), (y.v, ky)):
                v.type, v.shape = ir.TensorType(F32), shape(k)
            if dec.random() < 0.5:
                self.observe += self._hide(m, self.emit(m, "Abs", [y]))
                if dec.random() < 0.4:
                    self.observe.append(a)
            else:
                self.observe.append(y)
                self.symbolic_outputs[id(y.v)] = y.v.shape

    # ---- names that a pass derives when it makes a name unique, already in use ----------------------
    def plant_subgraph_init_name_family(self, rng):
        self._plant_init_name_family(rng, returned=False)

    def plant_subgraph_init_returned_name_family(self, rng):
        self._plant_init_name_family(rng, returned=True)

    def _plant_init_name_family(self, rng, returned: bool):
        """Initializers of sibling / nested subgraphs that carry the SAME name ``c`` (sibling scopes: legal), and
        values that already carry the names a pass derives when it has to make ``c`` unique (``c_1``, ``c_2``,
        ``c_1_1``): further initializers of the same, an earlier or a later subgraph (before or after ``c`` in the
        graph's initializer list), a main-graph initializer, a main-graph node output before / after the control
        flow, a node output local to a subgraph, the carried formal input of a Loop body.  Every holder has its own
        tensor (they differ by at least 5 everywhere) and is used on the way to a graph output, so a value that ends
        up under another holder's name - or is replaced by it - is an output difference.  No name hides a visible
        one: ``c`` is only held in scopes that do not enclose each other, every derived name has one holder.
        ``returned``: the first derived name is held by an initializer of an If branch that also holds ``c``, and that
        initializer is itself one of the branch's OUTPUTS (the checker and both evaluators accept that) - such an
        initializer has to stay in its subgraph when the others are moved to the main graph."""
        dec = random.Random(rng.random())  # variant decisions: independent of pool sizes
        m = self.main
        T = (F32, (2, 3))
        x = self._x(rng)
        base = self.fresh("c")
        serial = itertools.count(1)
        shared = self.rand_array(rng, F32, (2, 3)) if dec.random() < 0.15 else None  # the ``c`` tensors are equal

        def arr(name: str) -> np.ndarray:
            if name == base and shared is not None:
                return shared.copy()
            return (self.rand_array(rng, F32, (2, 3)) + np.float32(8 * next(serial))).astype(np.float32)

        slots = {k: {"inits": [], "nodes": [], "captures": [], "returned": []} for k in ("A.then", "A.else", "B.then", "B.else", "L", "N")}
        # the scopes that hold an initializer called ``c`` (N is nested in A.then, so these two exclude each other)
        pools = [["A.then", "A.else"], ["A.then", "B.then"], ["A.else", "L"], ["N", "A.else"], ["A.then", "A.else", "B.then"],
                 ["A.then", "L", "B.else"], ["N", "A.else", "B.then"], ["B.then", "L"]]
        holders = dec.choice(pools)
        for k in holders:
            slots[k]["inits"].append(base)
        # the derived names and who holds them
        family = [f"{base}_1", f"{base}_2", f"{base}_1_1", f"{base}_3"]
        chosen = [family[0]] if dec.random() < 0.8 else []
        chosen += [n for n in family[1:] if dec.random() < 0.35]
        if not chosen:
            chosen = [family[1]]
        main_before, main_after, main_inits, carry = [], [], [], None
        for number, name in enumerate(chosen):
            kind = dec.choice(["init"] * 6 + ["sub_node", "main_init", "main_before", "main_after", "loop_carry"])
            if kind == "loop_carry" and carry is not None:
                kind = "init"
            if returned and number == 0:
                slot = slots[dec.choice([k for k in holders if k[0] in "AB"])]  # every pool has a branch of If A or B
                slot["inits"].insert(dec.randrange(len(slot["inits"]) + 1), name)
                slot["returned"].append(name)
            elif kind == "init":
                slot = slots[dec.choice(sorted(slots))]
                slot["inits"].insert(dec.randrange(len(slot["inits"]) + 1), name)
            elif kind == "sub_node":
                slots[dec.choice(sorted(slots))]["nodes"].append(name)
            elif kind == "main_init":
                main_inits.append(name)
            elif kind == "main_before":
                main_before.append(name)
            elif kind == "main_after":
                main_after.append(name)
            else:
                carry = name
        outer: list[_TV] = []  # main-graph holders that the subgraphs may capture
        for name in main_inits:
            h = self.add_init(m, rng, F32, (2, 3), arr(name), name=name)
            self._hide(m, [h])
            self.observe += self._hide(m, self.emit(m, "Add", [x, h]))
            outer.append(h)
        for name in main_before:
            h = self.emit(m, "Add", [x, self.const(m, rng, F32, (2, 3), arr(name), form="value")], names=[name])[0]
            self._hide(m, [h])
            self.observe.append(h)
            outer.append(h)
        for h in outer:
            if dec.random() < 0.5:
                slots[dec.choice(sorted(slots))]["captures"].append(h)

        def content(s, key: str, cur: _TV, extra: list | None = None) -> _TV:
            slot = slots[key]
            for name in slot["inits"]:
                w = self.add_init(s, rng, F32, (2, 3), arr(name), name=name)
                if name in slot["returned"]:
                    extra.append(w)
                    if dec.random() < 0.5:
                        continue
                cur = self.emit(s, dec.choice(["Add", "Sub", "Mul"]), [cur, w], typed=True)[0]
            for name in slot["nodes"]:
                t = self.emit(s, "Add", [x, self.const(s, rng, F32, (2, 3), arr(name), form="value")], names=[name], typed=True)[0]
                cur = self.emit(s, dec.choice(["Sub", "Mul"]), [cur, t], typed=True)[0]
            for h in slot["captures"]:
                cur = self.emit(s, "Sub", [cur, h], typed=True)[0]
            if not any(slot.values()):  # a subgraph output must be produced by a node of the subgraph
                cur = self.emit(s, dec.choice(["Relu", "Neg"]), [cur], typed=True)[0]
            return cur

        def used(key: str) -> bool:
            return any(slots[key].values())

        def if_node(then_key: str, else_key: str, nested_key: str | None) -> list[_TV]:
            width = 1 + max(len(slots[then_key]["returned"]), len(slots[else_key]["returned"]))

            def outputs(b, cur, extra):  # both branches return ``width`` values
                while len(extra) < width - 1:
                    extra.append(self.emit(b, dec.choice(["Relu", "Abs"]), [x], typed=True)[0])
                return [cur, *extra]

            def then(b):
                extra: list[_TV] = []
                cur = content(b, then_key, x, extra)
                if nested_key is not None:
                    inner = self.gen_if(b, rng, then_hook=lambda n: [content(n, nested_key, cur)], out_types=[T])[0]
                    cur = self.emit(b, "Sub", [inner, x], typed=True)[0]
                return outputs(b, cur, extra)

            def other(b):
                extra: list[_TV] = []
                return outputs(b, content(b, else_key, x, extra), extra)
            return self.gen_if(m, rng, then_hook=then, else_hook=other, out_types=[T] * width)

        def loop_node() -> list[_TV]:
            def body(b, carried):
                if carry is not None:
                    carried.v.name = carry
                return content(b, "L", self.emit(b, "Add", [carried, x], typed=True)[0])
            return self.gen_loop(m, rng, body_hook=body, v0=x)
        makers = []
        if used("A.then") or used("A.else") or used("N"):
            makers.append(lambda: if_node("A.then", "A.else", "N" if used("N") else None))
        if used("B.then") or used("B.else"):
            makers.append(lambda: if_node("B.then", "B.else", None))
        if used("L") or carry is not None:
            makers.append(loop_node)
        dec.shuffle(makers)
        for make in makers:
            self.observe += self._hide(m, make())
        for name in main_after:
            self.observe += self._hide(m, self.emit(m, "Sub", [x, self.const(m, rng, F32, (2, 3), arr(name), form="value")], names=[name]))

    def plant_fn_inner_name_family(self, rng):
        """A function f whose own values are called ``t`` (and ``t_2``; at the top level of the body or local to a
        branch in it) is called two or three times - from the main graph and from an If branch - where values are
        called ``t``, ``t_2``, ``t_3``, ``t_2_2`` ... already: main-graph node outputs before, between and after the
        calls, a main-graph initializer, a value local to a sibling subgraph.  Functions are separate name spaces, so
        this is legal; a pass that moves f's values to the call site has to find names that none of them holds."""
        dec = random.Random(rng.random())  # variant decisions: independent of pool sizes
        m = self.main
        T = (F32, (2, 3))
        base = self.fresh("t")
        second = dec.choice([None, "top", "branch"])

        def body(s):
            x = s.inputs[0]
            a = self.emit(s, dec.choice(["Abs", "Neg"]), [x], names=[base])[0]
            cur = self.emit(s, "Mul", [a, x])[0]
            if second == "top":
                b = self.emit(s, "Sub", [cur, a], names=[f"{base}_2"])[0]
                cur = self.emit(s, "Add", [b, x])[0]
            elif second == "branch":
                def then(n):
                    b = self.emit(n, "Sub", [cur, a], names=[f"{base}_2"], typed=True)[0]
                    return [self.emit(n, "Add", [b, x], typed=True)[0]]
                cur = self.gen_if(s, rng, then_hook=then, else_hook=lambda n: [self.emit(n, "Relu", [cur], typed=True)[0]],
                                  out_types=[T])[0]
            return [cur]
        f = self.gen_function(rng, in_types=[T, (BOOL, ())], with_attrs=False, body_hook=body)
        family = [base, f"{base}_2", f"{base}_3", f"{base}_2_2", f"{base}_4", f"{base}_1"]
        chosen = [n for n in family[:3] if dec.random() < 0.7] + [n for n in family[3:] if dec.random() < 0.3]
        if not chosen:
            chosen = [family[1]]
        dec.shuffle(chosen)
        cond = self.bool_scalar(m, rng)
        x0 = self._x(rng)
        serial = itertools.count(1)

        def holder(name: str) -> None:
            """One value of the call site's name space called ``name``, observed at a graph output."""
            kind = dec.choice(["node", "node", "node", "init", "sibling"])
            k = np.float32(3 * next(serial))
            if kind == "init":
                h = self.add_init(m, rng, F32, (2, 3), (self.rand_array(rng, F32, (2, 3)) + k).astype(np.float32), name=name)
                self._hide(m, [h])
                self.observe += self._hide(m, self.emit(m, "Add", [x0, h]))
            elif kind == "sibling":
                def sib(b):
                    t = self.emit(b, "Add", [x0, self.const(b, rng, F32, (), np.array(k, np.float32))], names=[name], typed=True)[0]
                    return [self.emit(b, "Neg", [t], typed=True)[0]]
                self.observe += self._hide(m, self.gen_if(m, rng, then_hook=sib, out_types=[T]))
            else:
                self.observe += self._hide(m, self.emit(m, "Add", [x0, self.const(m, rng, F32, (), np.array(k, np.float32))], names=[name]))
        n_calls = dec.choice([2, 2, 3])
        # the holders are spread over the positions before, between and after the calls
        where = {name: dec.randrange(n_calls + 1) for name in chosen}
        for i in range(n_calls + 1):
            for name in chosen:
                if where[name] == i:
                    holder(name)
            if i == n_calls:
                break
            arg = self._hide(m, self.emit(m, ["Abs", "Neg", "Relu"][i], [x0]))[0]
            if i == 1 and dec.random() < 0.4:
                # (the arguments differ from call to call, so gen_call never refuses the call as a duplicate)
                self.observe += self._hide(m, self.gen_if(
                    m, rng, then_hook=lambda b, arg=arg: [self.gen_call(b, rng, f, inputs=[arg, cond], typed=True)[0]],
                    out_types=[T]))
            else:
                self.observe += self._hide(m, self.gen_call(m, rng, f, inputs=[arg, cond]))

    # ---- planters for values whose ROLE and PAYLOAD disagree in a legal way (EXTRA features): ``const_value`` on a value
    # ---- that is not a registered initializer is a hint which serialisation ignores - the value keeps its role
    def _const_hint(self, tv: _TV, rng, arr: np.ndarray | None = None) -> np.ndarray:
        arr = self.rand_array(rng, tv.dt, tv.shape) if arr is None else arr
        tv.v.const_value = self._tensor(np.array(arr, dtype=_NP[tv.dt]).reshape(tv.shape), tv.v.name, rng)
        return arr

    def plant_input_const_hint(self, rng):
        """Required main-graph inputs that carry a ``const_value`` without being registered initializers: built that
        way (``hint_only``), or registered as an initializer next to being an input and popped from
        ``graph.initializers`` on the finished model (``popped`` - the Value keeps its tensor).  Often a real
        initializer holds the same bytes.  The values fed at run time are unrelated to the hint."""
        dec = random.Random(rng.random())  # variant decisions: independent of pool sizes
        m = self.main
        for _ in range(dec.choice([1, 1, 2])):
            dt, shape = dec.choice([(F32, (2, 3)), (F32, (3,)), (I64, (2, 3)), (F32, ())])
            how = dec.choice(["hint_only", "hint_only", "popped"])
            with_twin = dec.random() < 0.5
            uses = dec.sample(["binary", "identity", "captured", "output"], dec.choice([1, 2, 2, 3]))
            op = dec.choice(["Add", "Mul", "Sub"])
            x = self._x(rng, dt, (2, 3))
            arr = self.rand_array(rng, dt, shape)
            if how == "popped":
                h = self.add_init(m, rng, dt, shape, arr.copy())
                self.init_inputs.append(h)
                self.after_build.append(lambda model, name=h.v.name: model.graph.initializers.pop(name))
            else:
                h = self.add_input(m, dt, shape)
                self._const_hint(h, rng, arr.copy())
            self._hide(m, [h])
            twin = self.add_init(m, rng, dt, shape, arr.copy()) if with_twin else None
            if "binary" in uses or uses == ["output"]:
                for w in (h, twin):
                    if w is not None:
                        self.observe += self.emit(m, op, [x, w], None, [(dt, (2, 3))])
            if "identity" in uses:
                self.observe += self.emit(m, "Identity", [h], None, [(dt, shape)], typed=True)
                if twin is not None:
                    self.observe += self.emit(m, "Identity", [twin], None, [(dt, shape)], typed=True)
            if "captured" in uses:
                self.observe += self.gen_if(m, rng, then_hook=lambda s, h=h, x=x, dt=dt: [
                    self.emit(s, "Add", [x, h], None, [(dt, (2, 3))], typed=True)[0]], out_types=[(dt, (2, 3))])
            if "output" in uses:
                self.extra_outputs.append(h)

    def plant_formal_input_const_hint(self, rng):
        """FORMAL inputs that carry a ``const_value``: the inputs of a Loop body (iteration number, condition, carried
        value) - of a Loop in the main graph or in the body of a model-local function - and the inputs of a
        model-local function.  The hint is unrelated to what the loop / the call site passes."""
        dec = random.Random(rng.random())  # variant decisions: independent of pool sizes
        m = self.main
        x = self._x(rng)
        where = dec.choice(["loop", "loop", "fn", "both", "fn_loop", "fn_loop"])
        hinted = dec.sample(["iter", "cond", "carry"], dec.choice([1, 2, 3]))
        with_twin = dec.random() < 0.4

        def hinted_loop(sc, v0, factor):
            """A Loop in ``sc`` whose body inputs carry hints; the body computes with all of them."""
            def body(s, v_in):
                it, cin = s.inputs[0], s.inputs[1]
                arr = self.rand_array(rng, v_in.dt, v_in.shape)
                if "carry" in hinted:
                    self._const_hint(v_in, rng, arr.copy())
                if "iter" in hinted:
                    self._const_hint(it, rng, np.array(dec.randint(2, 9), np.int64))
                if "cond" in hinted:
                    self._const_hint(cin, rng, np.array(dec.random() < 0.5))
                step = self.emit(s, "Cast", [it], {"to": int(F32.value)}, [(F32, ())])[0]
                cur = self.emit(s, "Add", [v_in, step], None, [(F32, (2, 3))])[0]
                if with_twin:  # a real initializer of the body with the bytes of the carried value's hint
                    cur = self.emit(s, "Sub", [cur, self.add_init(s, rng, v_in.dt, v_in.shape, arr.copy())], None, [(F32, (2, 3))])[0]
                return self.emit(s, "Mul", [cur, factor], None, [(F32, (2, 3))], typed=True)[0]
            return self.gen_loop(sc, rng, v0=v0, body_hook=body)

        if where in ("loop", "both"):
            self.observe += self._hide(m, hinted_loop(m, x, x))
        if where in ("fn", "both", "fn_loop"):
            two = dec.random() < 0.5
            in_types = [(F32, (2, 3)), (F32, (3,))] if two else [(F32, (2, 3))]

            def fbody(s):
                if where != "fn_loop" or dec.random() < 0.5:
                    for t in s.inputs:
                        self._const_hint(t, rng)
                cur = self.emit(s, dec.choice(["Neg", "Abs"]), [s.inputs[0]])[0]
                if two:
                    cur = self.emit(s, "Add", [cur, s.inputs[1]])[0]
                if where == "fn_loop":  # the function's formal input is captured by the Loop body
                    cur = hinted_loop(s, cur, s.inputs[0])[0]
                return [self.emit(s, "Mul", [cur, s.inputs[0]])[0]]
            fn = self.gen_function(rng, body_hook=fbody, in_types=in_types, with_attrs=False)
            args = [x] + ([self.need(m, rng, F32, (3,))] if two else [])
            self.observe += self._hide(m, self.gen_call(m, rng, fn, inputs=args) or [])
            if dec.random() < 0.5:  # a second call, inside a branch
                y = self.emit(m, "Abs", [x])[0]
                self.observe += self._hide(m, self.gen_if(
                    m, rng, then_hook=lambda s: [self.gen_call(s, rng, fn, inputs=[y] + args[1:], typed=True)[0]],
                    out_types=[(F32, (2, 3))]))

    def plant_node_output_const_hint(self, rng):
        """Node outputs that carry a TRUTHFUL ``const_value``: the output of a Constant node and of Neg / Identity of it,
        in the main graph and in an If branch; sometimes an initializer holds the same bytes, sometimes the hinted
        Constant output is a graph output."""
        dec = random.Random(rng.random())  # variant decisions: independent of pool sizes
        m = self.main
        dt, shape = dec.choice([(F32, (2, 3)), (F32, (3,)), (F32, ()), (I64, (2, 3)), (I64, ())])
        x = self._x(rng, dt, (2, 3))
        arr = self.rand_array(rng, dt, shape)

        def chain(s, typed=False):
            c = self.const(s, rng, dt, shape, arr.copy())
            self._const_hint(c, rng, arr.copy())
            follow = dec.choice(["Neg", "Identity", None])
            d = c
            if follow is not None:
                d = self.emit(s, follow, [c], None, [(dt, shape)])[0]
                self._const_hint(d, rng, -arr if follow == "Neg" else arr.copy())
            return c, self.emit(s, dec.choice(["Add", "Mul"]), [x, d], None, [(dt, (2, 3))], typed=typed)[0]
        c, y = chain(m)
        self._hide(m, [c])
        self.observe.append(y)
        if dec.random() < 0.3:
            self.observe.append(c)
        if dec.random() < 0.5:
            w = self.add_init(m, rng, dt, shape, arr.copy())
            self.observe += self.emit(m, "Sub", [x, w], None, [(dt, (2, 3))])
        if dec.random() < 0.5:
            self.observe += self.gen_if(m, rng, then_hook=lambda s: [chain(s, typed=True)[1]], out_types=[(dt, (2, 3))])

    # ---- falsy attribute values ---------------------------------------------------------------------
    _ATTR_KINDS_MORE = {"s": ir.AttributeType.STRING, "is": ir.AttributeType.INTS, "fs": ir.AttributeType.FLOATS}
    _ATTR_TYPES = {"f": ir.AttributeType.FLOAT, "i": ir.AttributeType.INT, **_ATTR_KINDS_MORE}
    # (kind, operator, attribute, the falsy value, other values).  The operator's own default for the attribute is not
    # the falsy value (given behind '#'), or the attribute is required (Constant needs exactly one value_* form): a
    # falsy value that is taken for "no value" gives other outputs or a model the checker rejects
    _FALSY_USES = (
        ("f", "LeakyRelu", "alpha", 0.0, (0.5, 0.25)),  # 0.01
        ("f", "Elu", "alpha", 0.0, (0.5, 2.0)),  # 1.0
        ("f", "ThresholdedRelu", "alpha", 0.0, (0.5, 2.0)),  # 1.0
        ("f", "HardSigmoid", "alpha", 0.0, (0.5, 0.1)),  # 0.2
        ("f", "HardSigmoid", "beta", 0.0, (0.25, 0.75)),  # 0.5
        ("f", "Selu", "gamma", 0.0, (0.5, 2.0)),  # 1.0507
        ("f", "Constant", "value_float", 0.0, (1.5, -0.75)),
        ("i", "Softmax", "axis", 0, (1,)),  # -1
        ("i", "LogSoftmax", "axis", 0, (1,)),  # -1
        ("i", "Hardmax", "axis", 0, (1,)),  # -1
        ("i", "Trilu", "upper", 0, (1,)),  # 1
        ("i", "TopK", "largest", 0, (1,)),  # 1
        ("i", "CumSum", "exclusive", 0, (1,)),  # 0 - observable as an explicit 0 where the parameter's default is 1
        ("i", "CumSum", "reverse", 0, (1,)),  # 0
        ("i", "Constant", "value_int", 0, (2, 5)),
        ("s", "Constant", "value_string", "", ("a", "x y")),
        ("is", "Constant", "value_ints", [], ([1, 2], [3])),
        ("fs", "Constant", "value_floats", [], ([0.5], [1.0, 2.5])),
    )

    def _falsy_use(self, s: _Scope, rng, x: _TV, use, attr) -> _TV:
        """One operator of ``_FALSY_USES`` applied to ``x`` (F32 (2,3)) in scope ``s`` with the attribute given as
        ``attr`` (an ir.Attr - literal or reference - or None: not given).  Returns the value that shows the effect:
        F32 (2,3) / (2,1) for the element-wise operators, a STRING scalar, or a (1,) tensor that holds length + sum of
        a list-valued Constant (whose own shape depends on the attribute value and is therefore left undeclared)."""
        kind, op, an = use[:3]
        attrs = {an: attr} if attr is not None else {}
        typed = s.kind == "branch"
        T = (F32, (2, 3))
        if op != "Constant":
            if op == "TopK":
                k = self._hide(s, [self.const(s, rng, I64, (1,), np.array([1], np.int64), form="value_ints")])[0]
                outs = self.emit(s, op, [x, k], attrs, [(F32, (2, 1)), (I64, (2, 1))], typed=typed)
                self._hide(s, outs)
                return outs[0]
            if op == "CumSum":
                ax = self._hide(s, [self.const(s, rng, I64, (), np.array(1, np.int64), form="value_int")])[0]
                return self.emit(s, op, [x, ax], attrs, [T], typed=typed)[0]
            return self.emit(s, op, [x], attrs, [T], typed=typed)[0]
        if kind == "f":
            c = self._hide(s, self.emit(s, op, [], attrs, [(F32, ())]))[0]
            return self.emit(s, "Add", [x, c], None, [T], typed=typed)[0]
        if kind == "i":
            c = self._hide(s, self.emit(s, op, [], attrs, [(I64, ())]))[0]
            cf = self._hide(s, self.emit(s, "Cast", [c], {"to": int(F32.value)}, [(F32, ())]))[0]
            return self.emit(s, "Add", [x, cf], None, [T], typed=typed)[0]
        if kind == "s":
            c = self._hide(s, self.emit(s, op, [], attrs, [(STR, ())], untyped=True))[0]
            return self._hide(s, self.emit(s, "Identity", [c], None, [(STR, ())], typed=typed))[0]
        dt = I64 if kind == "is" else F32
        c = self._hide(s, self.emit(s, op, [], attrs, [(dt, (0,))], untyped=True))[0]
        n = self._hide(s, self.emit(s, "Shape", [c], None, [(I64, (1,))]))[0]
        t = self._hide(s, self.emit(s, "ReduceSum", [c], {"keepdims": 1}, [(dt, (1,))]))[0]
        if dt != I64:
            n = self._hide(s, self.emit(s, "Cast", [n], {"to": int(dt.value)}, [(dt, (1,))]))[0]
        return self._hide(s, self.emit(s, "Add", [n, t], None, [(dt, (1,))], typed=typed))[0]

    @staticmethod
    def _falsy_out_type(use):
        kind, op = use[:2]
        if op == "TopK":
            return (F32, (2, 1))
        if op == "Constant" and kind == "s":
            return (STR, ())
        if op == "Constant" and kind in ("is", "fs"):
            return (I64 if kind == "is" else F32, (1,))
        return (F32, (2, 3))

    def plant_fn_attr_falsy(self, rng):
        """Attribute values that are FALSY in Python (0, 0.0, "", empty lists) and mean something else than "absent".
        A function F declares 1-3 attribute parameters, each used in its body (sometimes inside an If branch) by
        reference on an operator attribute of ``_FALSY_USES``; a parameter's default is the falsy value, another value,
        or there is none.  Call sites (main graph, one of them sometimes inside a branch) omit the parameters that have
        a default, give the falsy value explicitly, or mix.  Sometimes a wrapper W calls F - omitting, with the falsy
        literal, or forwarding its own parameter (same or another name; W's default falsy / other / none) - and is
        itself called with the parameter omitted or falsy.  Also plain operator nodes with the falsy literal next to a
        twin that leaves the attribute to the operator's default.  Every effect is a function / graph output."""
        dec = random.Random(rng.random())  # variant decisions: independent of pool sizes
        m = self.main
        T = (F32, (2, 3))
        mk = lambda name, kind, val: ir.Attr(name, self._ATTR_TYPES[kind], list(val) if isinstance(val, (list, tuple)) else val)  # noqa: E731
        n_params = dec.choice([1, 2, 2, 3])
        uses = dec.sample(self._FALSY_USES, n_params)
        if dec.random() < 0.5 and not any(u[1] != "Constant" for u in uses):
            uses[0] = dec.choice([u for u in self._FALSY_USES if u[1] != "Constant"])
        # the first parameter always has the falsy default: it is one whose falsy value is not the operator's default
        uses.sort(key=lambda u: u[1] == "CumSum")
        if uses[0][1] == "CumSum":
            uses[0] = dec.choice([u for u in self._FALSY_USES if u[1] != "CumSum"])
        words = dec.sample(["alpha", "axis", "k", "p", "q", "flag", "v", "mode", "gain", "s"], n_params)
        params = []  # (name, use, default)
        for i, (an, use) in enumerate(zip(words, uses)):
            r = dec.random()
            if use[1] == "CumSum":  # (0 is the operator's default: observable as an explicit 0 over another default)
                default = dec.choice(use[4]) if r < 0.85 else None
            else:
                default = use[3] if (i == 0 or r < 0.5) else (dec.choice(use[4]) if r < 0.85 else None)
            params.append((an, use, default))
        in_branch = dec.random() < 0.2 and any(self._falsy_out_type(u) == T for _, u, _ in params)
        in_types = [T] + ([(BOOL, ())] if in_branch else [])

        def f_body(s):
            x = s.inputs[0]
            refs = {an: ir.RefAttr(use[2], an, self._ATTR_TYPES[use[0]]) for an, use, _ in params}
            inside = [(an, use) for an, use, _ in params if in_branch and self._falsy_out_type(use) == T]
            got = {}
            if inside:
                hooks = [lambda b: [self._falsy_use(b, rng, x, use, refs[an]) for an, use in inside],
                         lambda b: [self.emit(b, o, [x], typed=True)[0] for o, _ in zip(("Neg", "Abs", "Relu"), inside)]]
                if dec.random() < 0.3:
                    hooks.reverse()
                graphs = []
                for which, hook in zip(("then", "else"), hooks):
                    child = _Scope("branch", s)
                    outs = hook(child)
                    for t in outs:
                        self._set_type(t.v, t.dt, t.shape, required=True)
                    graphs.append(self.make_graph(child, outs, self.fresh(which + "_g")))
                res = self.emit(s, "If", [s.inputs[1]], {"then_branch": graphs[0], "else_branch": graphs[1]}, [T] * len(inside))
                got = {an: t for (an, _), t in zip(inside, res)}
            return [got[an] if an in got else self._falsy_use(s, rng, x, use, refs[an]) for an, use, _ in params]
        f = self.gen_function(rng, in_types=in_types, body_hook=f_body,
                              attrs={an: (use[0], None if d is None else (list(d) if isinstance(d, (list, tuple)) else d)) for an, use, d in params})
        x = self._x(rng)
        extra = [self.bool_scalar(m, rng)] if in_branch else []

        def site_values(fn_params, style) -> dict:
            """name -> ir.Attr or None (omitted).  A parameter without default is always given."""
            vals = {}
            for an, use, default in fn_params:
                if style == "omit":
                    pick = "omit"
                elif style == "falsy":
                    pick = "falsy"
                else:
                    pick = dec.choice(["omit", "falsy", "other"])
                if pick == "omit" and default is None:
                    pick = dec.choice(["falsy", "other"])
                vals[an] = None if pick == "omit" else mk(an, use[0], use[3] if pick == "falsy" else dec.choice(use[4]))
            return vals

        def call(sc, fn, fn_params, style, ins, typed=False):
            outs = self.gen_call(sc, rng, fn, attr_values=site_values(fn_params, style), inputs=ins, typed=typed) or []
            return self._hide(sc, outs)
        styles = ["omit", "falsy"] + dec.sample(["mixed", "mixed", "omit"], dec.choice([0, 1, 1, 2]))
        dec.shuffle(styles)
        branch_site = dec.random() < 0.25

        def other_branch(b):
            outs = []
            for dt, shape in f.out_types:
                c = self.str_const(b, rng, "other", "value_string") if dt == STR else self._hide(b, [self.const(b, rng, dt, shape)])[0]
                outs += self._hide(b, self.emit(b, "Identity", [c], None, [(dt, shape)], typed=True))
            return outs
        for k, style in enumerate(styles):
            if branch_site and k == 0:
                self.observe += self._hide(m, self.gen_if(
                    m, rng, then_hook=lambda b, style=style: call(b, f, params, style, [x] + extra, typed=True) or other_branch(b),
                    else_hook=other_branch, out_types=list(f.out_types)))
            else:
                self.observe += call(m, f, params, style, [x] + extra)
        if dec.random() < 0.5:
            # the wrapper: per parameter of F either forwarded from a parameter of its own, left to F's default, or
            # given as the falsy literal
            w_params, forwarded = [], {}
            for an, use, default in params:
                r = dec.random()
                if r < 0.55 or default is None:
                    wn = an if dec.random() < 0.4 else "w_" + an
                    r2 = dec.random()
                    wd = use[3] if (r2 < 0.55 and use[1] != "CumSum") else (dec.choice(use[4]) if r2 < 0.85 else None)
                    w_params.append((wn, use, wd))
                    forwarded[an] = ir.RefAttr(an, wn, self._ATTR_TYPES[use[0]])
                elif r < 0.8:
                    forwarded[an] = None
                else:
                    forwarded[an] = mk(an, use[0], use[3])
            pre = dec.choice(["Neg", "Abs"])

            def w_body(s):
                xx = s.inputs[0]
                t = self.emit(s, pre, [xx])[0]
                return self._hide(s, self.gen_call(s, rng, f, attr_values=forwarded, inputs=[t] + list(s.inputs[1:])))
            w = self.gen_function(rng, in_types=in_types, body_hook=w_body,
                                  attrs={wn: (use[0], None if d is None else (list(d) if isinstance(d, (list, tuple)) else d)) for wn, use, d in w_params})
            for style in dec.sample(["omit", "falsy", "mixed"], dec.choice([1, 2, 2])):
                self.observe += call(m, w, w_params, style, [x] + extra)
        # plain operator nodes: the falsy literal next to a twin without the attribute (the operator's default applies)
        plain = [u for u in self._FALSY_USES if u[1] != "Constant" and u[1] != "CumSum"]
        for use in dec.sample(plain, dec.choice([0, 1, 1, 2])):
            self.observe.append(self._hide(m, [self._falsy_use(m, rng, x, use, mk(use[2], use[0], use[3]))])[0])
            self.observe.append(self._hide(m, [self._falsy_use(m, rng, x, use, None)])[0])

    # ---- assembly --------------------------------------------------------------------------------
    PLANT_ORDER = [
        "consts_all_forms", "dup_expr", "near_dup_attr", "near_dup_outcount", "near_dup_default", "signed_zero",
        "dup_init", "near_dup_init_dtype", "near_dup_init_shape", "init_is_input", "identity_chain", "identity_io",
        "identity_io_shadow", "identity_rename_shadow", "cse_rename_shadow", "identity_outer_branch", "identity_input_branch", "identity_in_branch", "captured_only", "const_in_branch",
        "subgraph_init", "sibling_init_name", "optional_io", "bn_training", "fn_alias", "fn_alias_branch",
        "fn_names_shadow", "fn_named_identity", "unused_node", "unused_fn", "unused_opset", "unused_init",
        "near_dup_const_rank", "dup_init_is_input", "fn_called_from_subgraph",
        "fn_attr_forward_renamed", "fn_scope_name_reuse", "fn_subgraph_formal_name_reuse",
        "const_strings", "string_inits", "fn_optional_inputs", "fn_foreign_opset", "random_twins", "random_twins_unlisted",
        "symbolic_dims", "subgraph_init_name_family", "subgraph_init_returned_name_family", "fn_inner_name_family",
        "input_const_hint", "formal_input_const_hint", "node_output_const_hint", "fn_attr_falsy", "out_alias_input", "out_init", "out_dup",
    ]

    def build(self) -> tuple[ir.Model, dict]:
        rng, m = self.rng, self.main
        self.init_inputs: list[_TV] = []
        self.after_build: list = []  # callables(model) run on the finished model (planters that edit it afterwards)
        self.dup_outputs = 0
        self.symbolic_outputs: dict[int, ir.Shape] = {}  # graph outputs that keep a symbolic declared shape
        # functions first (call sites need them)
        if any(f in self.feats for f in _FN_FEATURES):
            for i in range(rng.randint(1, 3)):
                self.fns.append(self.gen_function(rng))
            if "fn_overload" in self.feats:
                base = rng.choice(self.fns)
                over = self.gen_function(rng, name=base.name, overload=self.fresh("ov"), in_types=base.in_types)
                self.fns.append(over)
        # signature and base structure
        self.add_input(m, F32, (2, 3))
        for spec in rng.sample([(I64, (2, 3)), (F32, (6,)), (F32, (3,)), (F32, (2, 3)), (F32, ())], rng.randint(0, 2)):
            self.add_input(m, *spec)
        for _ in range(rng.randint(1, 3)):
            self.add_init(m, rng, *rng.choice([(F32, (2, 3)), (F32, (3,)), (F32, ()), (I64, (2, 3))]))
        slots = list(range(self.size))
        if_at = set(rng.sample(slots, min(len(slots), rng.choice([1, 1, 2])))) if "if" in self.feats else set()
        loop_at = set(rng.sample(slots, 1)) if "loop" in self.feats else set()
        for i in slots:
            if i in if_at:
                self.gen_if(m, rng)
            if i in loop_at:
                self.gen_loop(m, rng)
            if self.fns and rng.random() < 0.3:
                self.gen_call(m, rng)
            else:
                self.plain_op(m, rng)
        for feat in self.PLANT_ORDER:
            if feat in self.feats:
                getattr(self, "plant_" + feat)(self.frng(feat))
                self.planted.append(feat)
        # outputs: everything a planter wants observed, then live leaves (control flow and calls first)
        outs: list[_TV] = []
        seen: set[int] = set()
        for t in self.observe:
            if id(t.v) not in seen and id(t.v) not in self.dead:
                seen.add(id(t.v))
                outs.append(t)
        leaves = [t for t in m.pool if t.kind == "node" and not t.v.uses() and id(t.v) not in seen and id(t.v) not in self.dead]
        leaves.sort(key=lambda t: 0 if (t.v.producer().op_type in ("If", "Loop") or t.v.producer().domain) else 1)
        outs += leaves[:6]
        if not outs:
            outs = self.emit(m, "Neg", [m.inputs[0]])
        rng.shuffle(outs)
        outs += self.extra_outputs
        for _ in range(self.dup_outputs):
            outs.insert(rng.randrange(len(outs) + 1), rng.choice(outs))
        for t in outs:
            self._set_type(t.v, t.dt, t.shape, required=True)
            if id(t.v) in self.symbolic_outputs:
                t.v.shape = self.symbolic_outputs[id(t.v)]
        inputs = list(m.inputs)
        for w in self.init_inputs:
            inputs.insert(rng.randrange(1, len(inputs) + 1), w)
        graph = ir.Graph(
            [t.v for t in inputs], [t.v for t in outs], nodes=m.nodes, initializers=[t.v for t in m.inits],
            opset_imports={"": self.opset, **self.model_opsets}, name="main_graph",
        )
        if "metadata" in self.feats:
            graph.doc_string = "main graph doc"
            graph.metadata_props["vf.graph"] = "main"
        model = ir.Model(graph, ir_version=10, producer_name="vfpy.gen_exec", functions=self.functions)
        for hook in self.after_build:
            hook(model)
        n_sub = sum(1 for _ in model.graphs()) - 1
        info = {
            "seed": self.seed, "size": self.size, "features": sorted(self.feats), "planted": list(self.planted),
            "opset": self.opset, "n_nodes_main": len(m.nodes), "n_subgraphs": n_sub, "n_functions": len(self.functions),
            "n_inputs": len(inputs), "n_outputs": len(outs),
            "has_subgraph": n_sub > 0, "has_function": bool(self.functions),
            "has_planted_duplicate": bool(DUPLICATE_FEATURES & set(self.planted)),
            "ops": dict(self.ops),
            "expected_outputs": [(str(_NP[t.dt].__name__), list(t.shape)) for t in outs],
        }
        return model, info


# ============================================================================================
# public generator API
# ============================================================================================
def choose_features(rng: random.Random, extra: bool = False) -> set[str]:
    """The default random feature set (FEATURES probabilities), with evaluator-incompatible
    combinations removed: ORT cannot load a function whose output is one of its inputs and the
    reference evaluator cannot run overloads / attribute defaults, so these are not mixed."""
    feats = {f for f, p in FEATURES.items() if rng.random() < p}
    if feats & {"fn_alias", "fn_alias_branch"}:
        feats -= {"fn_overload", "fn_default_used"}
    if extra:  # drawn after everything else: the draw of the default features is the same with and without
        feats |= {f for f, p in EXTRA_FEATURES.items() if rng.random() < p}
    return feats


def model_from_seed(seed: int, size: int = 10, features: Iterable[str] | None = None, extra: bool = False) -> tuple[ir.Model, dict]:
    """Deterministic: the same (seed, size, features) always gives the same model.  ``features=None``
    draws the feature set from the seed; a subset of a previous ``info["features"]`` regenerates the
    model without the other planted patterns (for shrinking)."""
    feats = choose_features(random.Random(f"{seed}:features"), extra) if features is None else set(features)
    return _Builder(seed, size, feats).build()


def gen_model(rng: random.Random, size: int = 10, features: Iterable[str] | None = None, extra: bool = False) -> tuple[ir.Model, dict]:
    """One candidate model (NOT yet validated - use ``gen_checked`` or ``admit``).  ``info`` carries
    ``seed``/``size``/``features`` (enough for ``model_from_seed``), what was planted, and flags
    ``has_subgraph``/``has_function``/``has_planted_duplicate``."""
    return model_from_seed(rng.getrandbits(48), size, features, extra)


# ============================================================================================
# checker, evaluators, inputs, comparison
# ============================================================================================
def to_proto(model: ir.Model) -> onnx.ModelProto:
    return ir.to_proto(model)


def check(model_proto: onnx.ModelProto) -> str | None:
    """``onnx.checker.check_model`` in its default mode.  None when accepted, else the message."""
    try:
        onnx.checker.check_model(model_proto)
    except Exception as e:  # noqa: BLE001 - ValidationError, but any rejection is a rejection
        return f"{type(e).__name__}: {e}"
    return None


def checker_class(message: str) -> str:
    """Stable class of a checker message: first line with names and numbers removed."""
    line = message.split("\n", 1)[0]
    line = re.sub(r"^[A-Za-z_.]*(Error|Exception): ", "", line)
    line = re.sub(r"'[^']*'|\"[^\"]*\"", "*", line)
    line = re.sub(r"\d+", "N", line)
    line = re.split(r" however|, however|: input:| for operator| in node", line)[0]
    return re.sub(r"[^A-Za-z*N]+", "-", line).strip("-")[:70]


def required_inputs(model_proto: onnx.ModelProto) -> list[onnx.ValueInfoProto]:
    """Graph inputs that are not backed by an initializer, in order."""
    inits = {t.name for t in model_proto.graph.initializer} | {t.values.name for t in model_proto.graph.sparse_initializer}
    return [i for i in model_proto.graph.input if i.name not in inits]


def optional_inputs(model_proto: onnx.ModelProto) -> list[tuple[onnx.ValueInfoProto, onnx.TensorProto]]:
    """Graph inputs that ARE backed by an initializer (a default the caller may override), in order."""
    inits = {t.name: t for t in model_proto.graph.initializer}
    return [(i, inits[i.name]) for i in model_proto.graph.input if i.name in inits]


def make_overrides(rng: random.Random, model, k: int = 2) -> list[dict[str, np.ndarray]]:
    """Up to ``k`` override maps {optional input name: value of the initializer's dtype and shape,
    different from the default}.  The first overrides every optional input, later ones a random
    non-empty subset.  Empty list when the model has no initializer-backed graph input."""
    proto = model if isinstance(model, onnx.ModelProto) else ir.to_proto(model)
    optional = optional_inputs(proto)
    if not optional:
        return []
    maps = []
    for j in range(k):
        chosen = optional if j == 0 else [o for o in optional if rng.random() < 0.5] or [rng.choice(optional)]
        m = {}
        for vi, tensor in chosen:
            default = onnx.numpy_helper.to_array(tensor)
            if default.dtype == np.bool_:
                m[vi.name] = np.asarray(~default).reshape(default.shape)
            elif default.dtype.kind == "f":
                delta = np.array([rng.choice([1.0, -2.5, 8.0, 0.75]) for _ in range(default.size)], default.dtype)
                m[vi.name] = np.asarray(default + delta.reshape(default.shape), dtype=default.dtype).reshape(default.shape)
            else:
                delta = np.array([rng.choice([1, -3, 7, 10]) for _ in range(default.size)], default.dtype)
                m[vi.name] = np.asarray(default + delta.reshape(default.shape), dtype=default.dtype).reshape(default.shape)
        maps.append(m)
    return maps


def override_applicable(original: onnx.ModelProto, transformed: onnx.ModelProto, override: dict[str, np.ndarray]) -> bool:
    """An override may be replayed on a transformed model only if every overridden name is still an
    initializer-backed graph input there with the *same default* (dtype, shape, bytes): otherwise the
    same feed would not mean the same thing for both models (passes may legitimately add, remove or
    rename optional inputs), and the set must not be used at all."""
    before = {vi.name: t for vi, t in optional_inputs(original)}
    after = {vi.name: t for vi, t in optional_inputs(transformed)}
    for name in override:
        if name not in before or name not in after:
            return False
        a, b = onnx.numpy_helper.to_array(before[name]), onnx.numpy_helper.to_array(after[name])
        if a.dtype != b.dtype or a.shape != b.shape or a.tobytes() != b.tobytes():
            return False
    return True


def _np_dtype_of(vi: onnx.ValueInfoProto):
    return onnx.helper.tensor_dtype_to_np_dtype(vi.type.tensor_type.elem_type)


def make_inputs(rng: random.Random, model, k: int) -> list[list[np.ndarray]]:
    """``k`` positional input sets for the non-initializer inputs of ``model`` (ir.Model or
    ModelProto).  Set 0: small exact values; set 1: zeros and negatives (incl. -0.0); set 2: NaN /
    +-inf sprinkled over floats and larger magnitudes for ints; further sets cycle with new values.
    Boolean inputs alternate so that both branches of an ``If`` are taken over the sets."""
    proto = model if isinstance(model, onnx.ModelProto) else ir.to_proto(model)
    # float -> integer Cast of NaN / inf / out-of-range values is implementation defined (probe:
    # onnxruntime then answers differently for the same model depending on buffer placement), so a
    # model that contains such a Cast anywhere only gets finite, moderate values
    finite_only = _casts_to_int(proto)
    sets: list[list[np.ndarray]] = []
    first_bools: list[bool] = []
    for j in range(k):
        mode = j % 3
        arrays = []
        b = 0
        for vi in required_inputs(proto):
            dt = _np_dtype_of(vi)
            shape = tuple(d.dim_value for d in vi.type.tensor_type.shape.dim)
            n = int(np.prod(shape)) if shape else 1
            if dt == np.bool_:
                if j == 0:
                    vals = [rng.random() < 0.5 for _ in range(n)]
                    first_bools.append(vals[0])
                elif j == 1 and b < len(first_bools):
                    vals = [not first_bools[b]] * n
                else:
                    vals = [rng.random() < 0.5 for _ in range(n)]
                b += 1
            elif np.issubdtype(dt, np.floating):
                if mode == 0:
                    vals = [rng.randint(-16, 16) / 4.0 for _ in range(n)]
                elif mode == 1:
                    vals = [rng.choice([0.0, -0.0, -1.0, -2.5, 0.0, 3.0]) for _ in range(n)]
                elif finite_only:
                    vals = [rng.choice([1024.0, -512.0, 1.0, -2.0, 0.5, 100.25]) for _ in range(n)]
                else:
                    vals = [rng.choice([float("nan"), float("inf"), float("-inf"), 1.0, -2.0, 0.5]) for _ in range(n)]
            else:
                if mode == 0:
                    vals = [rng.randint(-5, 5) for _ in range(n)]
                elif mode == 1:
                    vals = [rng.choice([0, 0, -1, -7, 2]) for _ in range(n)]
                else:
                    vals = [rng.choice([1000, -1000, 0, 1, 123456]) for _ in range(n)]
            arrays.append(np.array(vals, dtype=dt).reshape(shape))
        sets.append(arrays)
    return sets


_INT_TYPES = {onnx.TensorProto.INT8, onnx.TensorProto.INT16, onnx.TensorProto.INT32, onnx.TensorProto.INT64,
              onnx.TensorProto.UINT8, onnx.TensorProto.UINT16, onnx.TensorProto.UINT32, onnx.TensorProto.UINT64}


def _casts_to_int(model_proto) -> bool:
    bodies = [model_proto.graph.node] + [f.node for f in model_proto.functions]
    for nodes in bodies:
        for n in list(nodes) + [x for g in _subgraphs(nodes) for x in g.node]:
            if n.op_type == "Cast" and any(a.name == "to" and a.i in _INT_TYPES for a in n.attribute):
                return True
    return False


def _feeds(model_proto, inputs: Sequence[np.ndarray], override: dict[str, np.ndarray] | None = None):
    req = required_inputs(model_proto)
    if len(req) != len(inputs):
        return None, f"model has {len(req)} non-initializer inputs, {len(inputs)} values given"
    feeds = {vi.name: arr for vi, arr in zip(req, inputs)}
    if override:
        optional = {vi.name for vi, _ in optional_inputs(model_proto)}
        missing = [n for n in override if n not in optional]
        if missing:
            return None, f"override of {missing}: not an initializer-backed graph input of this model"
        feeds.update(override)
    return feeds, None


def _exc_class(e: BaseException) -> str:
    return type(e).__name__


def _reference_gate(model_proto) -> str | None:
    """Static capability gate: things the reference evaluator gets *silently* wrong."""
    names = Counter((f.domain, f.name) for f in model_proto.functions)
    if any(f.overload for f in model_proto.functions) or any(c > 1 for c in names.values()):
        # probe: ReferenceEvaluator resolves calls by (domain, name) only - every overload runs the last body
        return "ref:gate:function-overloads"
    bodies = [model_proto.graph.node] + [f.node for f in model_proto.functions]
    for nodes in bodies:
        for n in list(nodes) + [x for g in _subgraphs(nodes) for x in g.node]:
            if n.op_type == "Loop" and n.domain == "":
                body = next((a.g for a in n.attribute if a.name == "body"), None)
                if body is not None and len(body.input) != max(len(n.input), 2):
                    # probe: body inputs beyond (iter, cond, carried...), e.g. initializer-backed ones added by
                    # AddInitializersToInputsPass: usually a TypeError, sometimes silently different results
                    return "ref:gate:loop-body-extra-inputs"
    return None


def run_reference_many(model_proto, input_sets: Sequence[Sequence[np.ndarray]],
                       overrides: Sequence[dict[str, np.ndarray] | None] | None = None) -> list[RunResult]:
    """``onnx.reference.ReferenceEvaluator`` on each positional input set (evaluator built once).
    ``overrides[j]`` (optional) feeds initializer-backed graph inputs by name in run j."""
    gate = _reference_gate(model_proto)
    if gate:
        return [RunResult(False, None, gate, "not attempted")] * len(input_sets)
    from onnx.reference import ReferenceEvaluator

    with warnings.catch_warnings(), np.errstate(all="ignore"):
        warnings.simplefilter("ignore")
        try:
            sess = ReferenceEvaluator(model_proto)
        except Exception as e:  # noqa: BLE001 - an evaluator that cannot load is a 'cannot run'
            return [RunResult(False, None, f"ref:load:{_exc_class(e)}", str(e)[:300])] * len(input_sets)
        results = []
        for j, inputs in enumerate(input_sets):
            feeds, err = _feeds(model_proto, inputs, overrides[j] if overrides else None)
            if feeds is None:
                results.append(RunResult(False, None, "ref:feeds", err))
                continue
            try:
                outs = sess.run(None, feeds)
                results.append(RunResult(True, [np.asarray(o) for o in outs]))
            except Exception as e:  # noqa: BLE001
                results.append(RunResult(False, None, f"ref:run:{_exc_class(e)}", str(e)[:300]))
    return results


def _subgraphs(nodes):
    for n in nodes:
        for a in n.attribute:
            for g in ([a.g] if a.type == onnx.AttributeProto.GRAPH else list(a.graphs)):
                yield g
                yield from _subgraphs(g.node)


def _ort_gate(model_proto) -> str | None:
    """Static capability gate: things onnxruntime gets *silently* wrong."""
    bodies = [model_proto.graph.node] + [f.node for f in model_proto.functions]
    for nodes in bodies:
        for g in _subgraphs(nodes):
            names = [o.name for o in g.output]
            if len(set(names)) != len(names):
                # probe: a value listed twice as If-branch output -> the first copy is uninitialised memory
                return "ort:gate:duplicate-subgraph-outputs"
    return None


def run_ort_many(model_proto, input_sets: Sequence[Sequence[np.ndarray]],
                 overrides: Sequence[dict[str, np.ndarray] | None] | None = None) -> list[RunResult]:
    """onnxruntime (CPU, all graph optimisations disabled, 1 intra / 1 inter thread).  Every input
    set is run twice in the same session; different results make the run a 'cannot run'
    (``ort:nondeterministic``) because an evaluator that does not repeat itself cannot compare."""
    import onnxruntime as ort

    gate = _ort_gate(model_proto)
    if gate:
        return [RunResult(False, None, gate, "not attempted")] * len(input_sets)

    so = ort.SessionOptions()
    so.graph_optimization_level = ort.GraphOptimizationLevel.ORT_DISABLE_ALL
    so.intra_op_num_threads = 1
    so.inter_op_num_threads = 1
    so.log_severity_level = 4
    try:
        sess = ort.InferenceSession(model_proto.SerializeToString(), so, providers=["CPUExecutionProvider"])
    except Exception as e:  # noqa: BLE001
        return [RunResult(False, None, f"ort:load:{_exc_class(e)}", str(e)[:300])] * len(input_sets)
    results = []
    for j, inputs in enumerate(input_sets):
        feeds, err = _feeds(model_proto, inputs, overrides[j] if overrides else None)
        if feeds is None:
            results.append(RunResult(False, None, "ort:feeds", err))
            continue
        try:
            outs = [np.asarray(o) for o in sess.run(None, feeds)]
            again = [np.asarray(o) for o in sess.run(None, feeds)]
        except Exception as e:  # noqa: BLE001
            results.append(RunResult(False, None, f"ort:run:{_exc_class(e)}", str(e)[:300]))
            continue
        d = same_outputs(outs, again)
        if d is not None:
            results.append(RunResult(False, None, "ort:nondeterministic", d))
        else:
            results.append(RunResult(True, outs))
    return results


def run_reference(model_proto, inputs: Sequence[np.ndarray]) -> RunResult:
    """One positional input set through the reference evaluator."""
    return run_reference_many(model_proto, [inputs])[0]


def run_ort(model_proto, inputs: Sequence[np.ndarray]) -> RunResult:
    """One positional input set through onnxruntime."""
    return run_ort_many(model_proto, [inputs])[0]


RUNNERS = {"ref": run_reference_many, "ort": run_ort_many}


def _as_bytes_list(x: np.ndarray) -> list[bytes]:
    return [v if isinstance(v, bytes) else str(v).encode("utf-8") for v in x.ravel().tolist()]


def same_outputs(a: Sequence[np.ndarray], b: Sequence[np.ndarray]) -> str | None:
    """None when the two positional output lists are exactly equal (count, dtype, shape, values with
    NaN == NaN; +0.0 == -0.0 as in IEEE comparison); otherwise a description of the first difference."""
    if len(a) != len(b):
        return f"{len(a)} outputs vs {len(b)}"
    for i, (x, y) in enumerate(zip(a, b)):
        if x.dtype.kind in "OUS" or y.dtype.kind in "OUS":
            # string tensors: an evaluator hands them out as str, bytes or object arrays depending on where the
            # value came from (Constant attribute / initializer) - compared as UTF-8 bytes, element by element
            if not (x.dtype.kind in "OUS" and y.dtype.kind in "OUS"):
                return f"position {i}: dtype {x.dtype} vs {y.dtype}"
            if x.shape != y.shape:
                return f"position {i}: shape {x.shape} vs {y.shape}"
            xs, ys = _as_bytes_list(x), _as_bytes_list(y)
            if xs != ys:
                return f"position {i}: strings {xs[:6]} vs {ys[:6]}"
            continue
        if x.dtype != y.dtype:
            return f"position {i}: dtype {x.dtype} vs {y.dtype}"
        if x.shape != y.shape:
            return f"position {i}: shape {x.shape} vs {y.shape}"
        if x.dtype.kind in "fc":
            with np.errstate(all="ignore"):
                eq = np.array_equal(x, y, equal_nan=True)
        else:
            eq = np.array_equal(x, y)
        if not eq:
            return f"position {i}: values {np.array2string(x.ravel()[:6], precision=5)} vs {np.array2string(y.ravel()[:6], precision=5)}"
    return None


def admit(model: ir.Model, info: dict, inputs_rng: random.Random, k_inputs: int = 3,
          evaluators: Sequence[str] = EVALUATORS, k_overrides: int = 2) -> tuple[Case | None, str]:
    """The gate every generated model goes through before use: serialisable, accepted by
    ``onnx.checker``, executed by >= 1 evaluator on >= 1 input set, and the evaluated outputs have
    the dtype/shape the generator expects.  Returns ``(case, "ok")`` or ``(None, reason)``."""
    try:
        proto = ir.to_proto(model)
    except Exception as e:  # noqa: BLE001
        return None, f"serialize:{_exc_class(e)}"
    msg = check(proto)
    if msg is not None:
        return None, "checker:" + checker_class(msg)
    inputs = make_inputs(inputs_rng, proto, k_inputs)
    baseline = {e: RUNNERS[e](proto, inputs) for e in evaluators}
    if not any(r.ok for rs in baseline.values() for r in rs):
        reasons = sorted({r.reason or "?" for rs in baseline.values() for r in rs})
        return None, "no_evaluator:" + "+".join(reasons)
    expected = info.get("expected_outputs")
    if expected:
        # generator self-check.  onnxruntime: dtype and shape; reference evaluator: dtype only (probe:
        # its Loop concatenates scan outputs instead of stacking them - consistently, before and after)
        want = [(d.replace("bool_", "bool").replace("object_", "string"), s) for d, s in expected]
        for e, rs in baseline.items():
            for r in rs:
                if not r.ok:
                    continue
                got = [("string" if o.dtype.kind in "OUS" else o.dtype.name, list(o.shape)) for o in r.outputs]
                if [g[0] for g in got] != [w[0] for w in want] or (e == "ort" and got != want):
                    return None, "type_tracking"
    case = Case(model, proto, info, inputs, baseline)
    if k_overrides and inputs:
        # "for all inputs" includes the initializer-backed graph inputs: extra runs that override them
        maps = make_overrides(random.Random(f"{info.get('seed')}:overrides"), proto, k_overrides)
        case.override_sets = [(j % len(inputs), m) for j, m in enumerate(maps)]
        if case.override_sets:
            sets = [inputs[j] for j, _ in case.override_sets]
            case.override_baseline = {e: RUNNERS[e](proto, sets, [m for _, m in case.override_sets]) for e in evaluators}
    return case, "ok"


def gen_checked(rng: random.Random, size: int = 10, features: Iterable[str] | None = None, k_inputs: int = 3,
                max_tries: int = 6, rejected: Counter | None = None, evaluators: Sequence[str] = EVALUATORS,
                extra: bool = False) -> Case | None:
    """Generate candidates until one is admitted (see ``admit``); rejected candidates are counted by
    reason in ``rejected``.  None after ``max_tries`` rejections."""
    for _ in range(max_tries):
        model, info = gen_model(rng, size, features, extra)
        case, reason = admit(model, info, random.Random(f"{info['seed']}:inputs"), k_inputs, evaluators)
        if case is not None:
            return case
        if rejected is not None:
            rejected["reject:" + reason] += 1
    return None
