"""Invariant walker: the C01 oracle (also used by C06, C14, C17, C19).

Evaluates, through *public accessors only*, the bidirectional clauses of property C01 over
every object of a universe.  Returns a list of (clause, message) pairs; empty = consistent.

I1  (n,i) in v.uses()  <=>  n.inputs[i] is v ; uses() has no duplicates ; consumers/predecessors/
    successors agree with the tuples.
I2  n.outputs[j].producer() is n and .index() == j ; v.producer() is n => n.outputs[v.index()] is v.
I3  n.graph is g  <=>  n occurs in list(g), exactly once ; len/index/reversed describe the same sequence.
I4  v.is_graph_input()  <=>  exists g: v in g.inputs, and then v.graph is g (same for outputs and
    initializers); a value is in collections of at most one graph.
I5  every initializer is stored under its current name.
I6  graph inputs and initializers have no producing node.
"""

from __future__ import annotations

import onnx_ir as ir


def _is(a, seq) -> int:
    return sum(1 for x in seq if x is a)


def check_universe(graphs, nodes, values, label=lambda o: repr(o)) -> list[tuple[str, str]]:
    out: list[tuple[str, str]] = []

    def bad(clause: str, msg: str) -> None:
        if len(out) < 40:
            out.append((clause, msg))

    node_ids = {id(n) for n in nodes}
    # ---- I1 / I2 from the node side ---------------------------------------------------------
    for n in nodes:
        L = label(n)
        inputs = n.inputs
        for i, v in enumerate(inputs):
            if v is None:
                continue
            if not any(u.node is n and u.idx == i for u in v.uses()):
                bad("I1a", f"{L}.inputs[{i}] is {label(v)} but {label(v)}.uses() lacks ({L},{i})")
        for j, v in enumerate(n.outputs):
            if v.producer() is not n:
                bad("I2a", f"{L}.outputs[{j}]={label(v)} names producer {label(v.producer())}")
            elif v.index() != j:
                bad("I2b", f"{L}.outputs[{j}]={label(v)} reports index {v.index()}")
        if _dups(n.outputs):
            bad("I2d", f"{L}.outputs lists a value twice")
        # derived accessors
        exp_pred = _dedup([v.producer() for v in inputs if v is not None and v.producer() is not None])
        if [id(x) for x in n.predecessors()] != [id(x) for x in exp_pred]:
            bad("I1p", f"{L}.predecessors() disagrees with inputs' producers")
        exp_succ = _dedup([u.node for v in n.outputs for u in v.uses()])
        if [id(x) for x in n.successors()] != [id(x) for x in exp_succ]:
            bad("I1s", f"{L}.successors() disagrees with outputs' uses")
    # ---- I1 / I2 / I4 / I6 from the value side ------------------------------------------------
    for v in values:
        L = label(v)
        uses = list(v.uses())
        seen = set()
        for u in uses:
            key = (id(u.node), u.idx)
            if key in seen:
                bad("I1d", f"{L}.uses() lists ({label(u.node)},{u.idx}) twice")
            seen.add(key)
            try:
                ins = u.node.inputs
            except AttributeError:
                continue  # reported as X0
            if not (0 <= u.idx < len(ins)) or ins[u.idx] is not v:
                bad("I1b", f"{L}.uses() has ({label(u.node)},{u.idx}) but that input is "
                           f"{label(ins[u.idx]) if 0 <= u.idx < len(ins) else 'out of range'}")
        exp_cons = _dedup([u.node for u in uses])
        if [id(x) for x in v.consumers()] != [id(x) for x in exp_cons]:
            bad("I1c", f"{L}.consumers() disagrees with uses()")
        p = v.producer()
        if p is not None:
            idx = v.index()
            outs = p.outputs
            if idx is None or not (0 <= idx < len(outs)) or outs[idx] is not v:
                bad("I2c", f"{L}.producer() is {label(p)} index {idx} but {label(p)}.outputs[{idx}] is not it")
        # ownership flags -> collections
        for flag, coll_name, clause in (
            (v.is_graph_input(), "inputs", "I4in"),
            (v.is_graph_output(), "outputs", "I4out"),
            (v.is_initializer(), "initializers", "I4init"),
        ):
            if not flag:
                continue
            g = v.graph
            if not isinstance(g, ir.Graph):
                bad(clause + "-flag", f"{L} reports being in graph {coll_name} but .graph is {label(g)}")
                continue
            try:
                coll = getattr(g, coll_name)
                members = list(coll.values()) if coll_name == "initializers" else list(coll)
            except Exception as e:  # noqa: BLE001 - owner graph object unusable
                bad(clause + "-flag", f"{L} reports being in {coll_name} of a graph whose {coll_name} cannot be read: {type(e).__name__}")
                continue
            if not _is(v, members):
                bad(clause + "-flag", f"{L} reports being in graph {coll_name} but {label(g)}.{coll_name} does not contain it")
        if (v.is_graph_input() or v.is_initializer()) and p is not None:
            bad("I6", f"{L} is a graph input/initializer but has producer {label(p)}")
    # ---- I3 / I4 / I5 from the graph side -----------------------------------------------------
    owners: dict[int, set[int]] = {}
    for g in graphs:
        L = label(g)
        try:
            seq = list(g)
        except Exception as e:  # noqa: BLE001
            bad("I3x", f"iterating {L} raised {type(e).__name__}: {e}")
            continue
        if len(seq) != len(g):
            bad("I3l", f"len({L})={len(g)} but iteration yields {len(seq)}")
        if [id(x) for x in reversed(g)] != [id(x) for x in reversed(seq)]:
            bad("I3r", f"reversed({L}) disagrees with iteration")
        if seq:
            try:
                if g[0] is not seq[0] or g[-1] is not seq[-1] or g[len(seq) // 2] is not seq[len(seq) // 2]:
                    bad("I3i", f"indexing {L} disagrees with iteration")
            except Exception as e:  # noqa: BLE001
                bad("I3i", f"indexing {L} raised {type(e).__name__}")
        if _dups(seq):
            bad("I3d", f"{L} lists a node twice")
        for n in seq:
            if n.graph is not g:
                bad("I3a", f"{label(n)} is in list({L}) but names graph {label(n.graph)}")
        for coll_name, flagf, clause in (
            ("inputs", "is_graph_input", "I4in"),
            ("outputs", "is_graph_output", "I4out"),
            ("initializers", "is_initializer", "I4init"),
        ):
            coll = getattr(g, coll_name)
            items = list(coll.items()) if coll_name == "initializers" else [(None, x) for x in coll]
            for key, v in items:
                owners.setdefault(id(v), set()).add(id(g))
                if not getattr(v, flagf)():
                    bad(clause + "-coll", f"{label(v)} is in {L}.{coll_name} but {flagf}() is False")
                if v.graph is not g:
                    bad(clause + "-graph", f"{label(v)} is in {L}.{coll_name} but .graph is {label(v.graph)}")
                if coll_name == "initializers" and v.name != key:
                    bad("I5", f"{L}.initializers[{key!r}] holds {label(v)} whose name is {v.name!r}")
                if coll_name != "outputs" and v.producer() is not None:
                    bad("I6", f"{label(v)} in {L}.{coll_name} has producer {label(v.producer())}")
    for vid, gs in owners.items():
        if len(gs) > 1:
            bad("I4multi", "a value is in collections of more than one graph")
    graph_ids = {id(g): g for g in graphs}
    for n in nodes:
        g = n.graph
        if g is None:
            continue
        if not isinstance(g, ir.Graph):
            bad("I3t", f"{label(n)}.graph is a {type(g).__name__}")
            continue
        try:
            cnt = _is(n, list(g))
        except Exception:  # noqa: BLE001
            continue
        if cnt != 1:
            bad("I3b", f"{label(n)} names graph {label(g)} but occurs {cnt} times in its node sequence")
    return out


def _dups(seq) -> bool:
    ids = [id(x) for x in seq]
    return len(ids) != len(set(ids))


def _dedup(seq):
    seen = {}
    for x in seq:
        seen.setdefault(id(x), x)
    return list(seen.values())


def check_world(w) -> list[tuple[str, str]]:
    broken = getattr(w, "broken", {})
    out = [("X0", f"{w.label(n)} is reachable from the universe (e.g. through uses()) but is only half constructed: {broken[id(n)]}")
           for n in w.nodes if id(n) in broken]
    nodes = [n for n in w.nodes if id(n) not in broken]
    return out + check_universe(w.graphs, nodes, w.values, w.label)


def check_model(model: ir.Model) -> list[tuple[str, str]]:
    """Walk a model (main graph, functions, nested graphs) and check all clauses."""
    from vfpy.world import World

    w = World()
    w.adopt_model(model)
    return check_world(w)
