"""C12: realise a spec (c12_gen) as real ``ir.Node``/``ir.Graph`` objects, run the sort entry
point under observation, and read the dependency relation back from the real objects through
public accessors only (``inputs``, ``producer()``, ``attributes``, ``graph``, ``list(graph)``).

Used by the shard (vfpy/props/c12.py) and by the hash-seed child process (vfpy/c12_child.py).
"""

from __future__ import annotations

import random
from typing import Any

import onnx_ir as ir
from onnx_ir.passes.common import TopologicalSortPass

from vfpy import c12_gen as G

TARGETS = ("Graph.sort", "Function.sort", "TopologicalSortPass", "Graph.sort(subgraph)")


class MoveFailed(Exception):
    """A move operation of a history raised (not what C12 judges; the evaluation is set aside)."""


class Built:
    def __init__(self) -> None:
        self.nodes: list[ir.Node] = []
        self.graphs: list[ir.Graph] = []
        self.nid: dict[int, int] = {}  # id(node) -> node id
        self.detached: list[ir.Node] = []  # nodes that are in no graph when the sort runs
        self.ginputs: list[list[ir.Value]] = []
        self.keepalive: list[Any] = []


def _op_type(n: dict) -> str:
    names = [a[0] for a in n["attrs"]]
    if not names:
        return "Op"
    if "then_branch" in names:
        return "If"
    if names == ["body"]:
        return "Loop"
    return "Multi"


def _attr(name: str, kind: str, gids: list[int], graphs: list) -> ir.Attr:
    if kind == "G":
        return ir.AttrGraph(name, graphs[gids[0]])
    return ir.AttrGraphs(name, [graphs[g] for g in gids])


_VALUE_ATTR = {
    "INT": lambda name: ir.AttrInt64(name, 3),
    "FLOAT": lambda name: ir.AttrFloat32(name, 0.5),
    "STRING": lambda name: ir.AttrString(name, "s"),
    "INTS": lambda name: ir.AttrInt64s(name, [1, 0]),
}


def _ref_name(name: str, kind: str) -> str:
    return f"p_{name}_{kind[4:].lower()}"


def _plain_attr(name: str, kind: str) -> ir.Attr:
    """An attribute that holds no graph: a value, or a reference to an attribute of the enclosing
    function (``ir.RefAttr`` - also of type GRAPH / GRAPHS it has nothing in it)."""
    if kind.startswith("ref-"):
        return ir.RefAttr(name, _ref_name(name, kind), getattr(ir.AttributeType, kind[4:]))
    return _VALUE_ATTR[kind](name)


def node_attrs(n: dict, graphs: list) -> list[ir.Attr]:
    """All attributes of a node of the spec, in the order the spec gives them."""
    return [_attr(a[1], a[2], a[3], graphs) if a[0] == "graph" else _plain_attr(a[1], a[2]) for a in G.attr_sequence(n)]


def function_attrs(spec: G.Spec) -> list[ir.Attr]:
    """Declarations (no default) of the function attributes the reference attributes of the body refer to."""
    out: dict[str, ir.Attr] = {}
    for n in spec["nodes"]:
        for _slot, name, kind in n.get("plain", []):
            if kind.startswith("ref-"):
                out.setdefault(_ref_name(name, kind), ir.Attr(_ref_name(name, kind), getattr(ir.AttributeType, kind[4:]), None))
    return list(out.values())


def build(spec: G.Spec, variant: str = "A", seed: int = 0) -> Built:
    """Three construction histories for the same structure and the same initial order:

    A  nodes, then graphs, in id order; attributes attached afterwards; inputs wired in id order
    B  nodes created in a shuffled order with junk allocations in between (different addresses,
       hence different ``hash(graph)``/``hash(node)`` order), graphs created in reverse id order,
       inputs wired in shuffled order (different ``uses()`` order)
    C  bottom-up: deepest graphs first, graph attributes passed to the ``Node`` constructor
    """
    b = Built()
    nspec, gspec = spec["nodes"], spec["graphs"]
    nodes: list[Any] = [None] * len(nspec)
    graphs: list[Any] = [None] * len(gspec)
    ginputs = [[ir.Value(name=f"g{gid}_in{k}") for k in range(g["nin"])] for gid, g in enumerate(gspec)]
    rng = random.Random(seed)

    def make_node(nid: int, attrs=()) -> None:
        n = nspec[nid]
        node = ir.Node("", _op_type(n), inputs=[None] * len(n["inputs"]), num_outputs=n["nout"],
                       attributes=list(attrs), name=f"n{nid}")
        for k, o in enumerate(node.outputs):
            o.name = f"n{nid}_o{k}"
        nodes[nid] = node

    dspec = spec.get("detached", [])
    dnodes: list[Any] = [None] * len(dspec)
    history = spec.get("history")

    def make_detached(did: int) -> None:
        d = dspec[did]
        node = ir.Node("", "Detached", inputs=[None] * len(d["inputs"]), num_outputs=d["nout"], name=f"d{did}")
        for k, o in enumerate(node.outputs):
            o.name = f"d{did}_o{k}"
        dnodes[did] = node

    def make_graph(gid: int) -> None:
        members = [nodes[x] for x in (history["start"][gid] if history else gspec[gid]["order"])]
        # nodes that will be taken out again with the non-safe remove() start inside the graph
        for did, d in enumerate(dspec):
            if d["how"] == "removed" and d["scope"] == gid:
                members.insert(min(d["pos"], len(members)), dnodes[did])
        graphs[gid] = ir.Graph(ginputs[gid], [], nodes=members, name=f"g{gid}")

    def detach_removed() -> None:
        for did, d in enumerate(dspec):
            if d["how"] == "removed" and dnodes[did].graph is not None:
                graphs[d["scope"]].remove(dnodes[did])  # default safe=False: keeps its inputs

    if variant == "A":
        for nid in range(len(nspec)):
            make_node(nid)
        for did in range(len(dspec)):
            make_detached(did)
        for gid in range(len(gspec)):
            make_graph(gid)
        for nid, n in enumerate(nspec):
            for attr in node_attrs(n, graphs):
                nodes[nid].attributes[attr.name] = attr
        wiring = [(nid, k) for nid, n in enumerate(nspec) for k in range(len(n["inputs"]))]
        wiring += [(-1 - did, k) for did, d in enumerate(dspec) for k in range(len(d["inputs"]))]
    elif variant == "B":
        order = list(range(len(nspec)))
        rng.shuffle(order)
        for nid in order:
            b.keepalive.append([object() for _ in range(rng.randrange(8))])
            b.keepalive.append(ir.Value(name="junk"))
            make_node(nid)
        for did in reversed(range(len(dspec))):
            make_detached(did)
        for gid in reversed(range(len(gspec))):
            b.keepalive.append(ir.Graph([], [], nodes=[], name="junk"))
            make_graph(gid)
        for nid, n in enumerate(nspec):
            for attr in node_attrs(n, graphs):
                nodes[nid].attributes[attr.name] = attr
        wiring = [(nid, k) for nid, n in enumerate(nspec) for k in range(len(n["inputs"]))]
        wiring += [(-1 - did, k) for did, d in enumerate(dspec) for k in range(len(d["inputs"]))]
        rng.shuffle(wiring)
        if rng.random() < 0.5:
            detach_removed()  # (removal before the inputs are connected: same final state)
    elif variant == "C":
        depth = G.graph_depths(spec)
        for did in range(len(dspec)):
            make_detached(did)
        for gid in sorted(range(len(gspec)), key=lambda g: (-depth[g], g)):
            for nid in gspec[gid]["order"]:
                make_node(nid, node_attrs(nspec[nid], graphs))
            make_graph(gid)
        wiring = [(-1 - did, k) for did, d in enumerate(dspec) for k in range(len(d["inputs"]))]
        wiring += [(nid, k) for nid, n in reversed(list(enumerate(nspec))) for k in range(len(n["inputs"]))]
    else:
        raise AssertionError(variant)

    for nid, k in wiring:
        user = nodes[nid] if nid >= 0 else dnodes[-1 - nid]
        ref = (nspec[nid] if nid >= 0 else dspec[-1 - nid])["inputs"][k]
        if ref is None:
            continue
        if ref[0] == "n":
            value = nodes[ref[1]].outputs[ref[2]]
        elif ref[0] == "d":
            value = dnodes[ref[1]].outputs[ref[2]]
        else:
            value = ginputs[ref[1]][ref[2]]
        user.replace_input_with(k, value)
    detach_removed()
    for did, node in enumerate(dnodes):
        if node.graph is not None:
            raise RuntimeError(f"C12 harness: detached node d{did} is still in a graph")

    for nid, n in enumerate(nspec):
        if n.get("plain") and list(nodes[nid].attributes) != [a[1] for a in G.attr_sequence(n)]:
            raise RuntimeError(f"C12 harness: attributes of n{nid} are not in the spec's order")
    if history:
        apply_moves(nodes, graphs, history["moves"])
    b.nodes, b.graphs, b.detached, b.ginputs = nodes, graphs, dnodes, ginputs
    b.nid = {id(n): k for k, n in enumerate(nodes)}
    apply_names(b, spec.get("names", []))
    return b


def resolve(b: Built, ref) -> ir.Value | None:
    if ref is None:
        return None
    if ref[0] == "n":
        return b.nodes[ref[1]].outputs[ref[2]]
    if ref[0] == "d":
        return b.detached[ref[1]].outputs[ref[2]]
    return b.ginputs[ref[1]][ref[2]]


def apply_names(b: Built, names: list) -> None:
    """Names cleared / emptied through the public setters, once everything is in its graph."""
    for what, name in names:
        if what[0] == "n":
            b.nodes[what[1]].name = name
        elif what[0] == "v":
            b.nodes[what[1]].outputs[what[2]].name = name
        else:
            b.ginputs[what[1]][what[2]].name = name


def _new_node(b: Built, nout: int, refs: list) -> ir.Node:
    nid = len(b.nodes)
    node = ir.Node("", "Op", inputs=[None] * len(refs), num_outputs=nout, name=f"n{nid}")
    for k, o in enumerate(node.outputs):
        o.name = f"n{nid}_o{k}"
    b.nodes.append(node)
    b.nid[id(node)] = nid
    return node


def apply_edit(b: Built, spec: G.Spec, e: dict) -> None:
    """One edit of a stage (c12_gen) on the live objects, through the public API.  ``spec`` is the
    unit's structure after the edit (for the operator name of a node that got a graph attribute)."""
    op = e["op"]
    if op == "rewire":
        node = b.nodes[e["node"]]
        if e.get("grow"):
            node.resize_inputs(e["slot"] + 1)
        node.replace_input_with(e["slot"], resolve(b, e["ref"]))
    elif op == "rauw":
        resolve(b, e["value"]).replace_all_uses_with(resolve(b, e["by"]))
    elif op == "add_attr":
        new_graphs, wiring = [], []
        for gs in e["graphs"]:
            gid = len(b.graphs)
            b.ginputs.append([ir.Value(name=f"g{gid}_in{k}") for k in range(gs["nin"])])
            members = []
            for ns in gs["nodes"]:
                members.append(_new_node(b, ns["nout"], ns["inputs"]))
                wiring.append((members[-1], ns["inputs"]))
            b.graphs.append(ir.Graph(b.ginputs[gid], [], nodes=members, name=f"g{gid}"))
            new_graphs.append(b.graphs[-1])
        for node, refs in wiring:
            for k, r in enumerate(refs):
                if r is not None:
                    node.replace_input_with(k, resolve(b, r))
        owner = b.nodes[e["node"]]
        owner.attributes[e["name"]] = ir.AttrGraph(e["name"], new_graphs[0]) if e["kind"] == "G" \
            else ir.AttrGraphs(e["name"], new_graphs)
        owner.op_type = _op_type(spec["nodes"][e["node"]])
    elif op == "add_node":
        node = _new_node(b, e["nout"], e["inputs"])
        for k, r in enumerate(e["inputs"]):
            if r is not None:
                node.replace_input_with(k, resolve(b, r))
        w = e["where"]
        try:
            if w[0] == "append":
                b.graphs[e["g"]].append(node)
            elif w[0] == "before":
                b.graphs[e["g"]].insert_before(b.nodes[w[1]], node)
            else:
                b.graphs[e["g"]].insert_after(b.nodes[w[1]], node)
        except Exception as ex:  # noqa: BLE001
            raise MoveFailed(f"adding a new node raised {type(ex).__name__}: {ex}"[:300]) from ex
    elif op == "move":
        apply_moves(b.nodes, b.graphs, [e["move"]])
    elif op == "rename":
        apply_names(b, [[e["what"], e["name"]]])
    else:
        raise AssertionError(op)


def all_names(b: Built) -> list:
    return [[n.name, [o.name for o in n.outputs]] for n in b.nodes]


def apply_moves(nodes: list, graphs: list, moves: list) -> None:
    """The moves of a history (c12_gen) through the public API, on the finished graphs."""
    for kind, gid, anchor, moved, form in moves:
        objs = [nodes[x] for x in moved]
        arg: Any = objs[0] if form == "node" else objs if form == "list" else tuple(objs) if form == "tuple" else iter(objs)
        g = graphs[gid]
        try:
            if kind == "Graph.insert_after":
                g.insert_after(nodes[anchor], arg)
            elif kind == "Graph.insert_before":
                g.insert_before(nodes[anchor], arg)
            elif kind == "Node.append":
                nodes[anchor].append(arg)
            elif kind == "Node.prepend":
                nodes[anchor].prepend(arg)
            elif kind == "Graph.append":
                g.append(objs[0])
            elif kind == "Graph.extend":
                g.extend(arg)
            elif kind == "Graph.remove":
                g.remove(arg)
            else:
                raise AssertionError(kind)
        except AssertionError:
            raise
        except Exception as e:  # noqa: BLE001
            raise MoveFailed(f"{kind} raised {type(e).__name__}: {e}"[:300]) from e


def orders(b: Built) -> list[list[int]]:
    """Current node order of every graph as node ids (-1 for an object that is not one of ours)."""
    return [[b.nid.get(id(n), -1) for n in g] for g in b.graphs]


def membership_faults(b: Built) -> list[str]:
    """Facets of 'each graph keeps exactly its own nodes' that the id lists cannot show."""
    out = []
    for gid, g in enumerate(b.graphs):
        listed = list(g)
        if len(g) != len(listed):
            out.append(f"len(g{gid})={len(g)} but iteration yields {len(listed)} nodes")
        for n in listed:
            if n.graph is not g:
                out.append(f"node n{b.nid.get(id(n), -1)} listed in g{gid} has another .graph")
    return out


# ---------------------------------------------------------------------------------------------
# the relation of the statement, read back from the real objects (top-down)
# ---------------------------------------------------------------------------------------------
def _child_graphs(node: ir.Node) -> list[ir.Graph]:
    out = []
    for attr in node.attributes.values():
        if not isinstance(attr, ir.Attr):
            continue
        if attr.is_ref() or attr.value is None:
            continue  # a reference attribute (whatever its type) holds no graph
        if attr.type == ir.AttributeType.GRAPH:
            out.append(attr.value)
        elif attr.type == ir.AttributeType.GRAPHS:
            out.extend(attr.value)
    return out


def object_constraints(b: Built) -> list[set[tuple[int, int, str]]]:
    """For every graph g and node n of g: every producer p with ``p.graph is g`` of a value used by
    n (``direct``) or by a node nested at any depth in n (``nested``) yields (p, n, kind)."""
    gid_of = {id(g): k for k, g in enumerate(b.graphs)}
    cons: list[set[tuple[int, int, str]]] = [set() for _ in b.graphs]

    def nested_nodes(node: ir.Node) -> list[ir.Node]:
        out = []
        for sub in _child_graphs(node):
            for m in sub:
                out.append(m)
                out.extend(nested_nodes(m))
        return out

    def visit(g: ir.Graph) -> None:
        gid = gid_of[id(g)]
        for n in g:
            inner = nested_nodes(n)
            for m, kind in [(n, "direct")] + [(x, "nested") for x in inner]:
                for v in m.inputs:
                    if v is None:
                        continue
                    p = v.producer()
                    if p is not None and p.graph is g:
                        cons[gid].add((b.nid[id(p)], b.nid[id(n)], kind))
            for sub in _child_graphs(n):
                visit(sub)

    visit(b.graphs[0])
    return cons


# ---------------------------------------------------------------------------------------------
# running the code under observation
# ---------------------------------------------------------------------------------------------
def make_sorter(case: dict, builts: list[Built]):
    """Returns a zero-argument callable performing the sort of ``case['target']`` on the built
    units; its return value is the pass's ``modified`` flag or None."""
    target = case["target"]
    if target == "Graph.sort":
        return lambda: builts[0].graphs[0].sort()
    if target == "Graph.sort(subgraph)":
        return lambda: builts[0].graphs[case["sub"]].sort()
    if target == "Function.sort":
        fn = ir.Function("c12", "f", graph=builts[0].graphs[0], attributes=function_attrs(case["units"][0]))
        builts[0].keepalive.append(fn)
        return lambda: fn.sort()
    if target == "TopologicalSortPass":
        fns = [ir.Function("c12", f"f{k}", graph=bu.graphs[0], attributes=function_attrs(case["units"][k]))
               for k, bu in enumerate(builts) if k]
        model = ir.Model(builts[0].graphs[0], ir_version=10, functions=fns)
        builts[0].keepalive.append(model)
        return lambda: TopologicalSortPass()(model).modified
    raise AssertionError(target)


def _sort_and_observe(builts: list[Built], sorter, resort: bool) -> dict[str, Any]:
    out: dict[str, Any] = {
        "pre": [orders(b) for b in builts],
        "cons": [object_constraints(b) for b in builts],
    }
    light = not resort  # (twin builds and hash-seed children: only the outcome is looked at)
    names = None if light else [all_names(b) for b in builts]
    out["exc"], out["exc_text"], out["modified"] = None, "", None
    try:
        out["modified"] = sorter()
    except Exception as e:  # noqa: BLE001 - the oracle judges the type
        out["exc"] = "ValueError" if isinstance(e, ValueError) else type(e).__name__
        out["exc_text"] = f"{type(e).__name__}: {e}"[:300]
    out["post"] = [orders(b) for b in builts]
    out["exc2"], out["post2"] = None, None
    if light:
        return out
    out["faults"] = [f for b in builts for f in membership_faults(b)]
    out["reversed_differs"] = sum(1 for b in builts for g in b.graphs if list(reversed(g))[::-1] != list(g))
    out["names_changed"] = [all_names(b) for b in builts] != names
    out["cons_after"] = [object_constraints(b) for b in builts] if out["exc"] is None else None
    if resort and out["exc"] is None:
        try:
            sorter()
        except Exception as e:  # noqa: BLE001
            out["exc2"] = f"{type(e).__name__}: {e}"[:300]
        out["post2"] = [orders(b) for b in builts]
    return out


def execute(case: dict, variant: str = "A", seed: int = 0, resort: bool = True) -> dict:
    """Build every unit of the case, sort once (and once more if that succeeded), and report
    everything the oracle needs as plain data.  With ``case["stages"]``: then, for every stage,
    apply its edits to the live objects and call the same entry point again; ``out["stages"]`` holds
    one record per executed stage (same keys, plus ``units`` = the structure after the edits with
    the orders observed before that sort)."""
    try:
        builts = [build(spec, variant, seed + k) for k, spec in enumerate(case["units"])]
    except MoveFailed as e:
        return {"move_failed": str(e)}
    sorter = make_sorter(case, builts)
    out = _sort_and_observe(builts, sorter, resort)
    if case.get("stages"):
        out["stages"] = []
        specs = [G.strip_history(un) for un in case["units"]]
        prev = out
        for stage in case["stages"]:
            if prev["exc"] not in (None, "ValueError") or prev["exc2"] or -1 in [x for u in prev["post"] for o in u for x in o]:
                break  # (already a finding; what follows would not be interpretable)
            try:
                for e in stage:
                    specs[e["u"]] = G.apply_edit(specs[e["u"]], e)
                    apply_edit(builts[e["u"]], specs[e["u"]], e)
                for b, sp in zip(builts, specs):
                    apply_names(b, sp.get("names", []))
            except MoveFailed as ex:
                out["stages"].append({"move_failed": str(ex)})
                break
            rec = _sort_and_observe(builts, sorter, resort)
            rec["units"] = [G.with_orders(sp, pre) for sp, pre in zip(specs, rec["pre"])]
            out["stages"].append(rec)
            prev = rec
    return out


def outcome(r: dict) -> dict:
    """What a run ended in, as comparable plain data (every sort of a staged case)."""
    recs = [r] + [s for s in r.get("stages", [])]
    return {"exc": [x.get("exc", "move operation raised") for x in recs], "post": [x.get("post") for x in recs]}
