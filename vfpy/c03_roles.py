"""C03 helpers: values that hold SEVERAL roles in their graph at once, and the per-value payload that the
format keeps OUTSIDE the value's own ValueInfoProto.

A value of a graph can be, at the same time, a graph input, an initializer (an input with a default value,
the pre-IR-4 style), a node output and a graph output.  The serializer walks the graph role by role (inputs,
initializers, node outputs, outputs) and has to decide for every side table of the GraphProto - `value_info`,
`initializer`, `quantization_annotation` - in which of the walks a value with several roles is written, so that
it is written at least once.  The quantization annotation of a value (`Value.meta["quant_parameter_tensor_names"]`,
documented in `onnx_ir.GraphProtocol` as "will be serialized as quantization annotations") is such a payload:
it lives in `GraphProto.quantization_annotation`, keyed by the value's name.

Workload pieces (public API only, all randomness from the rng handed in):

  * `multiply_roles`   - give values of every graph further roles: an initializer is appended to the graph
                         inputs, a graph input receives a payload and is registered as initializer, inputs /
                         initializers / node outputs are appended to the graph outputs;
  * `annotate_quant`   - quantization annotations on named values of every graph the format has a field for
                         (main graph and nested graphs at any depth - also those nested in function bodies; a
                         FunctionProto itself has no annotation field, so the body's own values get none);
  * `edit_quant`       - edits of the annotations of a (loaded) model: removed, emptied, entries popped /
                         re-valued / added, replaced, new annotations on values that had none.

Oracle pieces: `Iso` (c03_scopes.Iso + the annotation of every matched value pair, absent == empty) and
`annotated_by_roles` (counting only).
"""

from __future__ import annotations

import numpy as np
import onnx_ir as ir

from vfpy import c03_scopes

QUANT = "quant_parameter_tensor_names"   # the documented meta key (onnx_ir._protocols.GraphProtocol)
QUANT_KEYS = ["SCALE_TENSOR", "ZERO_POINT_TENSOR", "SCALE_TENSOR", "ZERO_POINT_TENSOR", "custom_key", "k", "ünicode"]
ROLE_ORDER = ("input", "initializer", "node_output", "output")


# ---- roles ------------------------------------------------------------------------------------------
def roles_in(g: ir.Graph, v: ir.Value) -> tuple[str, ...]:
    """The roles value v holds in graph g (decided from the graph's public containers)."""
    out = []
    if any(x is v for x in g.inputs):
        out.append("input")
    if v.name is not None and g.initializers.get(v.name) is v:
        out.append("initializer")
    p = v.producer()
    if p is not None and p.graph is g:
        out.append("node_output")
    if any(x is v for x in g.outputs):
        out.append("output")
    return tuple(out)


def roles_of(v: ir.Value) -> str:
    """Role description of a value from its own public predicates (for messages / signatures)."""
    out = []
    if v.is_graph_input():
        out.append("input")
    if v.is_initializer():
        out.append("initializer")
    if v.producer() is not None:
        out.append("node_output")
    if v.is_graph_output():
        out.append("output")
    return "+".join(out) or "unattached"


def proto_graphs(model: ir.Model) -> list[ir.Graph]:
    """Graphs that are serialised as a GraphProto (and so have a quantization_annotation field): the main
    graph and every nested graph, including graphs nested in function bodies; not the bodies themselves."""
    bodies = {id(f.graph) for f in model.functions.values()}
    return [g for g, _ in c03_scopes.scope_tree(model) if id(g) not in bodies]


def _fresh_tensor(rng, name):
    dt = rng.choice([np.float32, np.int64, np.uint8, np.int8, np.float16])
    shape = rng.choice([(), (1,), (2,), (2, 2)])
    arr = (np.arange(int(np.prod(shape)) if shape else 1) % 5).astype(dt).reshape(shape)
    return ir.tensor(arr, name=name)


def multiply_roles(model: ir.Model, rng, p=0.6) -> dict[str, int]:
    """Give values further roles through the public API; returns counts by the step taken.  Function bodies
    only get input/node-output -> output (a FunctionProto has no initializers)."""
    counts: dict[str, int] = {}
    bodies = {id(f.graph) for f in model.functions.values()}

    def bump(k):
        counts[k] = counts.get(k, 0) + 1

    for g, _ in c03_scopes.scope_tree(model):
        body = id(g) in bodies
        if not body:
            # an initializer becomes a graph input as well (input with a default value)
            inits = [v for v in g.initializers.values() if v.name and not v.is_graph_input()]
            if inits and rng.random() < p:
                try:
                    g.inputs.append(rng.choice(inits))
                    bump("initializer->input")
                except ValueError:
                    bump("refused:initializer->input")
            # a graph input receives a default value and is registered as initializer
            ins = [v for v in g.inputs if v.name and v.const_value is None and v.name not in g.initializers
                   and v.producer() is None]
            if ins and rng.random() < p:
                v = rng.choice(ins)
                t = _fresh_tensor(rng, rng.choice([v.name, None, "default_payload"]))
                v.const_value = t
                if v.type is not None:
                    v.type = ir.TensorType(t.dtype, denotation=v.type.denotation)
                    v.shape = ir.Shape(list(t.shape)) if (v.shape is not None or rng.random() < 0.5) else None
                try:
                    g.register_initializer(v)
                    bump("input->initializer")
                except ValueError:
                    v.const_value = None
        # values of every role become graph outputs as well
        for role in ("input", "initializer", "node_output"):
            if body and role == "initializer":
                continue
            if role == "input":
                cands = list(g.inputs)
            elif role == "initializer":
                cands = list(g.initializers.values())
            else:
                cands = [o for n in g for o in n.outputs]
            cands = [v for v in cands if v.name and not v.is_graph_output()]   # (output of ANY graph: one owner only)
            if cands and rng.random() < p:
                try:
                    g.outputs.append(rng.choice(cands))
                    bump(role + "->output")
                except ValueError:
                    bump(f"refused:{role}->output")
    return counts


# ---- quantization annotations ---------------------------------------------------------------------------
def _entries(rng, names) -> dict[str, str]:
    out = {}
    for _ in range(rng.randint(1, 3)):
        k = rng.choice(QUANT_KEYS)
        out[k] = rng.choice(names) if (names and rng.random() < 0.4) else rng.choice(
            ["x_scale", "x_zero_point", "scale", "", "zp 1"])
    return out


def annotation(v: ir.Value) -> dict:
    """The value's annotation as a plain dict; absent, None and empty read alike (nothing is serialised)."""
    a = v.meta.get(QUANT)
    try:
        return dict(a) if a else {}
    except (TypeError, ValueError):
        return {"<not a mapping>": repr(a)}


def annotate_quant(model: ir.Model, rng, p=0.4, p_multi=0.9) -> int:
    """Annotate named values of every GraphProto-serialised graph; values holding several roles with
    probability p_multi.  Returns the number of annotations made."""
    made = 0
    for g in proto_graphs(model):
        vals = [v for v in c03_scopes.owned(g) if v.name]
        names = [v.name for v in vals]
        for v in vals:
            if rng.random() < (p_multi if len(roles_in(g, v)) > 1 else p):
                v.meta[QUANT] = _entries(rng, names)
                made += 1
    return made


def edit_quant(model: ir.Model, rng, p=0.5) -> dict[str, int]:
    """Edit the annotations of a model (meant for a LOADED one, whose annotations came out of a proto)."""
    counts: dict[str, int] = {}
    for g in proto_graphs(model):
        vals = [v for v in c03_scopes.owned(g) if v.name]
        names = [v.name for v in vals]
        for v in vals:
            if rng.random() >= p:
                continue
            cur = v.meta.get(QUANT)
            if not cur:
                if rng.random() < 0.4:
                    v.meta[QUANT] = _entries(rng, names)
                    op = "added"
                else:
                    continue
            else:
                op = rng.choice(["deleted", "emptied", "cleared_in_place", "popped", "revalued", "extended", "replaced"])
                if op == "deleted":
                    del v.meta[QUANT]
                elif op == "emptied":
                    v.meta[QUANT] = {}
                elif op == "cleared_in_place":
                    cur.clear()
                elif op == "popped":
                    cur.pop(sorted(cur)[0])
                elif op == "revalued":
                    cur[sorted(cur)[-1]] = rng.choice(["other_scale", ""])
                elif op == "extended":
                    cur["AXIS"] = "1"
                else:
                    v.meta[QUANT] = _entries(rng, names)
            counts[op] = counts.get(op, 0) + 1
    return counts


def annotated_by_roles(model: ir.Model) -> dict[str, int]:
    """Counting only: annotated values of GraphProto-serialised graphs by the roles they hold in their graph,
    and by nesting (main graph / nested graph)."""
    out: dict[str, int] = {}
    for g in proto_graphs(model):
        where = "main" if g is model.graph else "nested"
        for v in c03_scopes.owned(g):
            if v.name and annotation(v):
                k = "+".join(roles_in(g, v)) or "none"
                out[k] = out.get(k, 0) + 1
                out["in_" + where + "_graph"] = out.get("in_" + where + "_graph", 0) + 1
    return out


def duplicate_annotations(model_proto) -> int:
    """Counting only: tensor names annotated more than once in one GraphProto (the statement is silent)."""
    dup = 0
    stack = [model_proto.graph] + [n for f in model_proto.functions for n in f.node]
    while stack:
        x = stack.pop()
        if hasattr(x, "quantization_annotation"):
            names = [q.tensor_name for q in x.quantization_annotation]
            dup += len(names) - len(set(names))
            stack.extend(x.node)
        else:
            for a in x.attribute:
                if a.HasField("g"):
                    stack.append(a.g)
                stack.extend(a.graphs)
    return dup


# ---- oracle -------------------------------------------------------------------------------------------
class Iso(c03_scopes.Iso):
    """c03_scopes.Iso + the quantization annotation of every matched value pair.  A value owned by a function
    body itself has no place for an annotation in the format (counted in `report_only`, not judged)."""

    def __init__(self, **kw):
        super().__init__(**kw)
        self.no_annotation_field: set[int] = set()
        self.annotations_compared = 0

    def model(self, a, b):
        self.no_annotation_field = {id(v) for f in a.functions.values() for v in c03_scopes.owned(f.graph)}
        return super().model(a, b)

    def value_attrs(self, path, a, b):
        super().value_attrs(path, a, b)
        if not a.name:
            return
        qa, qb = annotation(a), annotation(b)
        if id(a) in self.no_annotation_field:
            if qa:
                self.report_only.append("quant_annotation_on_function_body_value")
            return
        if qa or qb:
            self.annotations_compared += 1
        if qa != qb:
            what = "lost" if qa and not qb else ("appeared" if qb and not qa else "changed")
            self.d(f"{path}<{a.name}>.quantization_annotation", f"annotation {what} on {roles_of(a)} value {qa!r} != {qb!r}")
