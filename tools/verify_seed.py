#!/venv/bin/python
"""tools/verify_seed.py <seed-worktree> <k> <PROP> <name> [--tier quick] [--no-suite]

Confirms a seeded change independently in a fresh scratch worktree of /repo:
  clean tree: demo exits 0;  changed tree: demo exits 1 and the repository suite is unchanged
  (3664 passed + the 3 baseline import failures);  then runs ./vf check <PROP> against the
  changed tree and records whether it was caught.  Stores /verif/seeded/<name>/.
"""
import json
import re
import shutil
import subprocess
import sys
import tempfile
import time
from pathlib import Path

PY = "/venv/bin/python"


def sh(cmd, **kw):
    return subprocess.run(cmd, capture_output=True, text=True, **kw)


def main():
    src, k, prop, name = sys.argv[1:5]
    tier = "quick"
    if "--tier" in sys.argv:
        tier = sys.argv[sys.argv.index("--tier") + 1]
    run_suite = "--no-suite" not in sys.argv
    seed = Path(src) / "_seed"
    patch = seed / f"change{k}.diff"
    demo = seed / f"demo{k}.py"
    notes = seed / f"notes{k}.md"
    # keep a copy of the deliverables first: the seeder's worktree may be removed at any time
    keep = Path("/verif/.work/seedkeep") / name
    keep.mkdir(parents=True, exist_ok=True)
    for f in (patch, demo, notes):
        if f.exists():
            shutil.copy(f, keep / f.name)
    patch, demo, notes = keep / patch.name, keep / demo.name, keep / notes.name
    scratch = Path(tempfile.mkdtemp(prefix="vs-"))
    wt = scratch / "repo"
    out = {"property": prop, "name": name, "source": f"{src} change{k}"}
    try:
        subprocess.check_call(["git", "-C", "/repo", "worktree", "add", "--detach", str(wt)],
                              stdout=subprocess.DEVNULL, stderr=subprocess.DEVNULL)
        env = {"PYTHONPATH": f"{wt}/src", "PATH": "/usr/bin:/bin", "PYTHONHASHSEED": "0", "HOME": "/root"}
        r0 = sh([PY, str(demo)], env=env, cwd=str(scratch), timeout=600)
        out["demo_clean_rc"] = r0.returncode
        ap = sh(["git", "-C", str(wt), "apply", str(patch)])
        out["apply_rc"] = ap.returncode
        if ap.returncode != 0:
            print("patch does not apply:", ap.stderr)
            print(json.dumps(out))
            return 2
        r1 = sh([PY, str(demo)], env=env, cwd=str(scratch), timeout=600)
        out["demo_changed_rc"] = r1.returncode
        out["demo_changed_tail"] = (r1.stdout + r1.stderr)[-600:]
        if run_suite:
            t = time.time()
            rs = sh([PY, "-m", "pytest", "-q", "-p", "no:cacheprovider", "-p", "no:randomly", "--timeout=900",
                     "--continue-on-collection-errors", "-n", "8"], env=env, cwd=str(wt), timeout=3000)
            tail = rs.stdout.strip().splitlines()[-1] if rs.stdout.strip() else ""
            tail = re.sub(r"\x1b\[[0-9;]*m", "", tail)
            out["suite_tail"] = tail
            out["suite_ok"] = ("3664 passed" in tail and "1 failed" in tail and "2 errors" in tail)
            out["suite_s"] = round(time.time() - t)
        t = time.time()
        rc = sh(["/verif/vf", "check", prop, tier], env={**env, "VF_REPO": str(wt), "PATH": "/usr/bin:/bin"}, timeout=7200)
        out["check_rc"] = rc.returncode
        out["check_s"] = round(time.time() - t)
        out["check_lines"] = [l[:300] for l in rc.stdout.splitlines() if l.startswith("VIOLATION") or "violation signature" in l][:8]
        out["caught"] = rc.returncode == 1 and "VIOLATION property=" in rc.stdout
        ok = out["demo_clean_rc"] == 0 and out["demo_changed_rc"] == 1 and (not run_suite or out["suite_ok"])
        out["confirmed"] = ok
        if ok:
            dest = Path("/verif/seeded") / name
            dest.mkdir(parents=True, exist_ok=True)
            shutil.copy(patch, dest / "patch.diff")
            shutil.copy(demo, dest / "demo.py")
            if notes.exists():
                shutil.copy(notes, dest / "notes.md")
            meta = {
                "property": prop,
                "needs_to_manifest": notes.read_text()[:1500] if notes.exists() else "",
                "origin": "fresh sub-agent given only the property text and its own scratch worktree",
                "confirmed": {
                    "demo_on_clean_tree_rc": out["demo_clean_rc"], "demo_with_change_rc": out["demo_changed_rc"],
                    "repository_suite_with_change": out.get("suite_tail", "not run"),
                    "commands": [f"PYTHONPATH=<wt>/src {PY} demo.py", "pytest -q -p no:cacheprovider -p no:randomly --continue-on-collection-errors -n 8",
                                 f"VF_REPO=<wt> ./vf check {prop} {tier}"],
                },
                "check_result": {"tier": tier, "rc": out["check_rc"], "caught": out["caught"], "signatures": out["check_lines"]},
            }
            (dest / "meta.json").write_text(json.dumps(meta, indent=1) + "\n")
        print(json.dumps(out, indent=1))
        return 0 if ok else 1
    finally:
        subprocess.run(["git", "-C", "/repo", "worktree", "remove", "--force", str(wt)], capture_output=True)
        shutil.rmtree(scratch, ignore_errors=True)
        subprocess.run(["git", "-C", "/repo", "worktree", "prune"], capture_output=True)


if __name__ == "__main__":
    sys.exit(main())
