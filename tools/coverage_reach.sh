#!/bin/bash
# tools/coverage_reach.sh [ID ...] - REACH measurement, not a check: run the quick tier of the named checks
# (default: all) with line coverage of onnx_ir recorded in every shard, then print per anchored module the
# lines no workload executed.  Output under .work/reach/.  Coverage slows the shards (~2x), so fewer cases
# run within the time budgets: the result under-approximates what the checks reach.
cd "$(dirname "$0")/.."
ids="$@"; [ -z "$ids" ] && ids=$(/venv/bin/python -c "import json;print(' '.join(c['property_id'] for c in json.load(open('MANIFEST.json'))['checks']))")
rm -rf .work/reach; mkdir -p .work/reach
for id in $ids; do
  mkdir -p .work/reach/$id
  VF_COVERAGE_DIR=$PWD/.work/reach/$id ./vf check $id quick > .work/reach/$id.log 2>&1
  echo "$id rc=$? files=$(ls .work/reach/$id | wc -l)"
done
cd .work/reach
/venv/bin/python -m coverage combine --keep --data-file=all.cov */cov.* >/dev/null 2>&1
/venv/bin/python -m coverage report --data-file=all.cov --include='*/onnx_ir/*' --omit='*_test.py' -m > report_all.txt 2>&1
tail -60 report_all.txt | cut -c1-200
