#!/bin/bash
# Run the repository's own suite with the C01 walker evaluated after every test (false-alarm audit).
OUT=/verif/.work/audit_invariants.jsonl; rm -f $OUT; mkdir -p /verif/.work
cd /repo && VF_AUDIT_OUT=$OUT PYTHONPATH=/repo/src:/verif /venv/bin/python -m pytest -q -p no:cacheprovider -p no:randomly -p vfpy.audit_plugin --timeout=900 --continue-on-collection-errors -q src/onnx_ir/_core_test.py src/onnx_ir/_graph_containers_test.py src/onnx_ir/_linked_list_test.py src/onnx_ir/serde_test.py src/onnx_ir/passes src/onnx_ir/_convenience src/onnx_ir/_multi_device_test.py src/onnx_ir/journaling 2>&1 | tail -3
echo "--- clause firings by clause set:"; [ -f $OUT ] && /venv/bin/python - <<'PY'
import json,collections
c=collections.Counter(); ex={}
for l in open('/verif/.work/audit_invariants.jsonl'):
    d=json.loads(l); k=tuple(d['clauses']); c[k]+=1; ex.setdefault(k,d)
for k,n in c.most_common(): print(n,k,ex[k]['test'],'|',ex[k]['first'][:160])
PY
