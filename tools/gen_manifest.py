#!/venv/bin/python
"""Regenerates MANIFEST.json from the table below; a property is claimed only when its check
module exists under vfpy/props.  Run: /venv/bin/python tools/gen_manifest.py"""

import json
import sys
from pathlib import Path

ROOT = Path(__file__).resolve().parent.parent

# id -> (category, technique, level text, level note, design ref)
TABLE = {
    "C01": ("exploration", "invariant walker (bidirectional use-def/ownership clauses) at quiescent points after every call of generated edit histories; ddmin-shrunk witnesses",
            "Runtime monitor: after every public editing call of thousands of generated adversarial histories an invariant walker re-checks clauses I1-I6 over every IR object through public accessors. Held on the histories observed, not for all histories.",
            "Trusted: the walker (public accessors only), the history generator's type-correctness; histories bounded in length and world size.", "DESIGN.md §3 C01, §2.1-2.2"),
    "C02": ("exploration", "round-trip monitor: reflection-based canonical proto comparator over generated protos",
            "Generated well-formed protos are deserialised and re-serialised by the real code; an oracle built on protobuf reflection compares every field modulo the documented normalisations.",
            "Trusted: protobuf reflection, the canonicaliser's normalisation list (validated on the ONNX backend corpus), generator covers only the supported feature set.", "DESIGN.md §3 C02"),
    "C03": ("exploration", "round-trip isomorphism checker + before/after state snapshot comparator on generated and edited IR models",
            "IR models built and edited through the public API are serialised and reloaded by the real code; a structural isomorphism checker and an all-observables snapshot diff act as oracles.",
            "Trusted: iso checker and snapshot through public accessors; names kept unique per scope by construction.", "DESIGN.md §3 C03"),
    "C04": ("exploration", "metamorphic cross-representation monitor with independent bit packer and onnx.numpy_helper as reference decoder",
            "Every representation of one logical array is built on the real classes over a dtype x representation x shape x value x destination grid and compared bit-for-bit with each other, an independent packer and the ONNX reference encoder/decoder.",
            "Trusted: numpy/ml_dtypes, onnx.numpy_helper, the 20-line reference packer; the grid is finite.", "DESIGN.md §3 C04"),
    "C05": ("exploration", "differential execution monitor: onnx.checker + ReferenceEvaluator/onnxruntime outputs before vs after pass sequences on generated executable models",
            "Generated checker-valid models are executed before and after random built-in pass sequences; outputs must agree position by position and the checker must still accept.",
            "Trusted: onnx.checker, the two evaluators (a verdict needs one evaluator to run both models, and a lone evaluator is believed only if it reproduces its own outputs on independent re-encodings of the same models: onnx.inliner, outputs routed through Identity); a handful of input tensors per model.", "DESIGN.md §3 C05, A.10, A.12"),
    "C06": ("exploration", "before/after all-observables snapshot comparator around every raising public mutator in generated histories",
            "A snapshot of every public observable of every IR object is taken before each call of a generated history and compared when the call raised.",
            "Trusted: snapshot completeness (audited against dir() of the IR classes), generator type-correctness.", "DESIGN.md §3 C06, §2.3"),
    "C07": ("exploration", "save/load monitor over a parameter grid: byte equality, layout predicates on recorded ranges, tensor identity before/after",
            "Real saves over a threshold x alignment x shard x workers x backend x naming grid are reloaded; bytes, placement, layout and object identity are judged by independent predicates.",
            "Trusted: os.stat / file bytes, numpy; grid sampled.", "DESIGN.md §3 C07"),
    "C08": ("fault_enumeration", "fork-per-crash-point process death via sys.monitoring LINE failpoints + failing file-system effects (effect classes: temp creation, write(2) under a buffered file, mode copy, rename, cleanup; descriptor exhaustion); directory/bytes oracle in the parent",
            "For each scenario a recording run lists every line event and file-system call of the real save; the save is then re-run once per position with the process dying or the call failing there, and the destination is compared with the two legal contents.",
            "Trusted: os.fork/_exit semantics, page cache survives process death (power loss not modelled); exhaustive over the fault positions of the recorded runs only.", "DESIGN.md §3 C08"),
    "C09": ("exploration", "event-log monitors (mutual exclusion, exactly-once, conservation vs budget, thread census) over real threaded saves with injected delays/yields; structural deadlock diagnosis",
            "Real concurrent saves run under seeded delay/yield injection with monitor tensors, a budget subclass observed under its own lock and a callback log; offline checkers judge the recorded event log; files compared with the serial save.",
            "Trusted: monitor's own lock and logical clock; schedules are sampled (distinct traces are counted), not enumerated.", "DESIGN.md §3 C09"),
    "C10": ("exploration", "canary sandbox + audit-hook file-access monitor over generated location/base spellings and every read entry point",
            "A sandbox of canary files (inside, outside, prefix sibling, symlinks, hard links) is built and every read entry point is driven with generated locations; returned bytes and observed opens are judged against harness-computed containment truth.",
            "Trusted: os.path.realpath/os.stat for truth, sys.addaudithook for observation; no concurrent attacker.", "DESIGN.md §3 C10"),
    "C11": ("exploration", "recorded edit/iterator histories checked against a small reference model and direct spec predicates",
            "Interleavings of iterator steps and graph edits run on the real containers; every yield, len, index and membership is compared with a reference model written from the statement.",
            "Trusted: the 60-line reference model; degenerate same-position moves are report-only; bounded enumeration is exhaustive only for its small space.", "DESIGN.md §3 C11"),
    "C12": ("exploration", "post-condition monitor on Graph.sort with a brute-force constraint oracle, twin builds and cycle oracle",
            "Generated nested graphs (DAG and cyclic) are sorted by the real code; an independent oracle computes the constraint set, stability, determinism and the cycle verdict.",
            "Trusted: the brute-force oracle; generated graphs are lexically well scoped.", "DESIGN.md §3 C12"),
    "C13": ("exploration", "identity-set and snapshot monitors around clone + edit histories on either copy",
            "Clones of generated models/graphs/functions/views are compared by proto, identity sets are intersected, then edit histories run on one copy while the other's snapshot is watched.",
            "Trusted: snapshot completeness, public accessors for identity collection.", "DESIGN.md §3 C13"),
    "C14": ("exploration", "pass-contract monitor: identity, modified-flag vs proto bytes, bounded fixpoint iteration, invariant walker, snapshot under injected ONNX-boundary faults",
            "Each built-in pass runs on generated models under monitors for result identity, flag soundness (serialized bytes), convergence within a size bound, link consistency, order preservation and exact no-change for analysis passes, with and without faults injected at the ONNX call boundary.",
            "Trusted: deterministic protobuf serialization, the C01 walker, the snapshot.", "DESIGN.md §3 C14"),
    "C15": ("exploration", "name-collision monitor over add/re-add histories; post-condition oracle for NameFixPass and bulk rename",
            "Histories with adversarial explicit names run against the real graphs while the harness tracks the set of names it knows were registered; NameFixPass and rename_values are judged by uniqueness/visibility predicates and snapshot diffs.",
            "Trusted: the under-approximated registered-name set, the visibility predicate (conservative reading).", "DESIGN.md §3 C15"),
    "C16": ("exploration", "twin evaluation: SymbolicDim operator overloads vs exact int/Fraction arithmetic; grammar strings vs Python eval of the same text",
            "Expression trees are built twice (real SymbolicDim and exact arithmetic) and compared under bindings, after simplify, after partial binding and after print->parse; grammar strings are compared with Python's own evaluation.",
            "Trusted: Python int/Fraction arithmetic and the Python parser for precedence; SymPy is part of the code under test.", "DESIGN.md §3 C16"),
    "C17": ("exploration", "mutation fuzzing of protos under a logical-step budget (sys.monitoring event count per input byte) and watchdog, invariant walker, canonical round-trip and file-access monitors (audit hook)",
            "Field- and byte-level mutants of valid protos are deserialised by the real code under a watchdog; returned IR is walked for link consistency, re-serialised to a fixpoint and all file-system access is observed.",
            "Trusted: the C01 walker, the C02 canonicaliser, sys.addaudithook; termination is decided on counted interpreter events (bound linear in the input size), never on wall-clock time.", "DESIGN.md §3 C17, A.11"),
    "C18": ("exploration", "brute-force closure oracle + differential execution of source vs extracted region over enumerated cuts",
            "Cuts of generated executable models are extracted by the real code; node set/order/initializers/independence are compared with a brute-force closure and the region is executed against recorded source values.",
            "Trusted: brute-force closure, evaluator; cuts enumerated for small graphs, sampled beyond.", "DESIGN.md §3 C18"),
    "C19": ("exploration", "identity-membership monitor for device annotations after every step of annotate/edit/clone/round-trip histories",
            "After every step of generated histories a monitor checks that each annotation targets a current input/output by identity and a registered configuration, runs the library's own checker and inspects serialized names.",
            "Trusted: the monitor's identity predicates; workload confined to what the statement lists.", "DESIGN.md §3 C19"),
    "C20": ("exploration", "differential run inside vs outside journals with sys.monitoring call log as ground truth and class-attribute census",
            "The same history is executed with and without (nested, exception-exited) journals; states, returns and exceptions are compared, entries are matched against a sys.monitoring call log and class attributes are censused before/after.",
            "Trusted: sys.monitoring events on the original code objects and the harness's own record of the calls it made (client boundary), snapshot/iso oracles.", "DESIGN.md §3 C20, A.9"),
}


# properties whose check has been reviewed and committed by the lead
READY = {"C01", "C02", "C03", "C04", "C05", "C06", "C07", "C08", "C09", "C10", "C11", "C12", "C13", "C14", "C15", "C16", "C17", "C18", "C19", "C20"}


def main() -> int:
    checks = []
    not_applicable = []
    for pid, (cat, tech, text, note, ref) in TABLE.items():
        if pid in READY and (ROOT / "vfpy" / "props" / f"{pid.lower()}.py").exists():
            checks.append({
                "property_id": pid,
                "quick_cmd": f"./vf check {pid} quick",
                "thorough_cmd": f"./vf check {pid} thorough",
                "evidence_file": f"evidence/{pid}.json",
                "replay_cmd_template": f"./vf check {pid} quick --replay {{path}}",
                "engine": "vfpy",
                "level_claimed": {"category": cat, "text": text, "design_ref": ref},
                "level_note": note,
                "technique": "runtime monitoring: " + tech,
            })
        else:
            not_applicable.append({"property_id": pid, "reason": "check not built yet (work in progress; runtime monitoring does apply, see DESIGN.md)"})
    manifest = {
        "version": 1,
        "setup_cmd": "./vf setup",
        "hooks": {
            "guard": "ONNX_IR_PY_VERIF",
            "enable": "no hooks were added to onnx/ir-py: monitors attach from outside (module attributes resolved at call time, sys.monitoring, audit hooks, wrapper tensors/files); ./vf exports ONNX_IR_PY_VERIF=1 for form only. onnx_ir is an editable install of /repo/src, so every check observes the current working tree without a build step.",
            "baseline_off_cmd": "cd /repo && env -u ONNX_IR_PY_VERIF /venv/bin/python -m pytest -ra -q -p no:cacheprovider --timeout=900 --continue-on-collection-errors -n 8",
            "source_commits": [],
            "add_only": True,
        },
        "engines": [{
            "name": "vfpy", "path": "vfpy/",
            "serves_properties": [c["property_id"] for c in checks],
            "kind_free_text": "Python runtime monitors (invariant walkers, snapshot comparators, reference-model and event-log checkers, fault/delay injection via sys.monitoring and module attributes, fork-per-crash-point) run in sharded subprocesses by vfpy/runner.py against the real onnx_ir working tree.",
        }],
        "checks": checks,
        "not_applicable": not_applicable,
        "notes": "Verdicts are three-valued: exit 0 held on what was observed, exit 1 + VIOLATION line, exit 2 + INCONCLUSIVE line when a deciding monitor was not reached. Known findings: known_findings.json (read-only at run time).",
    }
    (ROOT / "MANIFEST.json").write_text(json.dumps(manifest, indent=1) + "\n")
    try:
        import jsonschema

        jsonschema.validate(manifest, json.loads(Path("/root/.vp/MANIFEST.schema.json").read_text()))
        print(f"MANIFEST.json valid: {len(checks)} checks, {len(not_applicable)} not_applicable")
    except ImportError:
        print("jsonschema not available; not validated")
    return 0


if __name__ == "__main__":
    sys.exit(main())
