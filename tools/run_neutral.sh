#!/bin/bash
# tools/run_neutral.sh <neutral-name> <ID> [<ID> ...]: apply a behaviour-preserving refactoring (neutral/<name>/patch.diff)
# to a scratch worktree and run the named checks' quick tier against it. Any rc=1 is a FALSE ALARM of the check.
cd "$(dirname "$0")/.."
name=$1; shift
d=$(mktemp -d /tmp/neutral-XXXX)
git -C /repo worktree add --detach $d/repo >/dev/null 2>&1
git -C $d/repo apply $PWD/neutral/$name/patch.diff || { echo "$name: patch does not apply"; git -C /repo worktree remove --force $d/repo; rm -rf $d; exit 2; }
mkdir -p .work
for id in "$@"; do
  s=$(date +%s)
  VF_REPO=$d/repo ./vf check $id quick > .work/neutral_${name}_$id.log 2>&1; rc=$?
  echo "neutral $name $id rc=$rc $(( $(date +%s) - s ))s $(grep -E 'INCONCLUSIVE|VIOLATION|violation signature' .work/neutral_${name}_$id.log | head -3 | cut -c1-220 | tr '\n' ' ')"
done
git -C /repo worktree remove --force $d/repo; rm -rf $d; git -C /repo worktree prune
