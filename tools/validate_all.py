#!/venv/bin/python
"""Validate MANIFEST.json and every evidence/<id>.json of a claimed check against the schemas."""
import json, sys
from pathlib import Path
import jsonschema
ROOT = Path("/verif")
ms = json.loads(Path("/root/.vp/MANIFEST.schema.json").read_text())
es = json.loads(Path("/root/.vp/EVIDENCE.schema.json").read_text())
m = json.loads((ROOT / "MANIFEST.json").read_text())
jsonschema.validate(m, ms)
bad = 0
for c in m["checks"]:
    p = ROOT / c["evidence_file"]
    if not p.exists():
        print("MISSING", p); bad += 1; continue
    e = json.loads(p.read_text())
    try:
        jsonschema.validate(e, es)
        cov = e["coverage"]
        print(f"{c['property_id']}: ok tier={e['tier']} level={e['level']} eval={cov['evaluations']} nontrivial={cov['distinct_nontrivial']} verdict={cov.get('verdict')} wall={e['wall_s']}")
        if e["level"] != c["level_claimed"]["category"]:
            print("   LEVEL MISMATCH", e["level"], c["level_claimed"]["category"]); bad += 1
        if cov.get("verdict") != "held_on_observed":
            print("   verdict not held:", cov.get("verdict")); bad += 1
    except jsonschema.ValidationError as ex:
        print(c["property_id"], "INVALID:", ex.message[:200]); bad += 1
claimed = {c["property_id"] for c in m["checks"]}
na = {x["property_id"] for x in m.get("not_applicable", [])}
props = {json.loads(l)["id"] for l in open(ROOT / "properties.jsonl")}
print("claimed", len(claimed), "not_applicable", sorted(na), "unaccounted", sorted(props - claimed - na))
sys.exit(1 if bad else 0)
