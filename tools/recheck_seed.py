#!/venv/bin/python
"""tools/recheck_seed.py <seeded-name> [note]: re-run the property's quick check against the stored
seeded change (scratch worktree) and refresh meta.json's check_result."""
import json, subprocess, sys, tempfile, shutil
from pathlib import Path
name = sys.argv[1]
note = sys.argv[2] if len(sys.argv) > 2 else None
d = Path("/verif/seeded") / name
meta = json.loads((d / "meta.json").read_text())
prop = meta["property"]
scratch = Path(tempfile.mkdtemp(prefix="rs-"))
wt = scratch / "repo"
try:
    subprocess.check_call(["git", "-C", "/repo", "worktree", "add", "--detach", str(wt)], stdout=subprocess.DEVNULL, stderr=subprocess.DEVNULL)
    subprocess.check_call(["git", "-C", str(wt), "apply", str(d / "patch.diff")])
    env = {"PYTHONPATH": f"{wt}/src", "PATH": "/usr/bin:/bin", "PYTHONHASHSEED": "0", "HOME": "/root"}
    r1 = subprocess.run(["/venv/bin/python", str(d / "demo.py")], env=env, cwd=str(scratch), capture_output=True, text=True, timeout=900)
    rc = subprocess.run(["/verif/vf", "check", prop, "quick"], env={**env, "VF_REPO": str(wt)}, capture_output=True, text=True, timeout=7200)
    caught = rc.returncode == 1 and "VIOLATION property=" in rc.stdout
    prev = meta.get("check_result", {})
    meta["check_result"] = {"tier": "quick", "rc": rc.returncode, "caught": caught,
                            "signatures": [l[:300] for l in rc.stdout.splitlines() if "violation signature" in l][:6]}
    if prev and not prev.get("caught") and caught:
        meta["check_result"]["history"] = "initially MISSED by the check; caught after the check was strengthened" + (f": {note}" if note else "")
    elif note:
        meta["check_result"]["note"] = note
    meta.setdefault("confirmed", {})["demo_with_change_rc_on_current_head"] = r1.returncode
    (d / "meta.json").write_text(json.dumps(meta, indent=1) + "\n")
    print(name, "demo rc", r1.returncode, "check rc", rc.returncode, "caught", caught)
finally:
    subprocess.run(["git", "-C", "/repo", "worktree", "remove", "--force", str(wt)], capture_output=True)
    shutil.rmtree(scratch, ignore_errors=True)
    subprocess.run(["git", "-C", "/repo", "worktree", "prune"], capture_output=True)
