#!/venv/bin/python
"""tools/mkseed.py C10 a [N]  -> creates worktree /tmp/seed-C10-a and prompt /tmp/seedprompt-C10-a.txt"""
import json, subprocess, sys
pid, tag = sys.argv[1], sys.argv[2]
n = sys.argv[3] if len(sys.argv) > 3 else "2"
props = {json.loads(l)['id']: json.loads(l) for l in open('/verif/properties.jsonl')}
tmpl = open('/verif/tools/seeder_prompt.txt').read()
wt = f"/tmp/seed-{pid}-{tag}"
subprocess.run(["git", "-C", "/repo", "worktree", "add", "--detach", wt], check=True, capture_output=True)
p = props[pid]
text = (tmpl.replace("{WT}", wt).replace("{ID}", pid).replace("{TITLE}", p['title'])
        .replace("{STATEMENT}", p['statement']).replace("{QUANT}", p['quantifier']['text']).replace("{N}", n))
import glob, os
tried = []
for m in sorted(glob.glob(f"/verif/seeded/{pid}*/notes.md")):
    first = " ".join(open(m).read().split())[:260]
    tried.append("  - " + first)
if tried:
    text += ("\n\nOther engineers have already delivered the following changes for this property; do NOT repeat them - "
             "choose different functions, different mechanisms and different triggering conditions (other clauses of the "
             "property, other modules it is anchored in):\n" + "\n".join(tried) + "\n")
hint = os.environ.get("SEED_HINT")
if hint:
    text += "\nThis time look in particular at: " + hint + "\n"
open(f"/tmp/seedprompt-{pid}-{tag}.txt", "w").write(text)
print(wt)
