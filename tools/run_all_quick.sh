#!/bin/bash
# tools/run_all_quick.sh [seed] - run every claimed check's quick tier against /repo, sequentially
cd "$(dirname "$0")/.."
SEED="${1:-0}"
for id in $(/venv/bin/python -c "import json;print(' '.join(c['property_id'] for c in json.load(open('MANIFEST.json'))['checks']))"); do
  s=$(date +%s)
  VERIF_SEED=$SEED ./vf check $id quick > .work/quick_$id.log 2>&1; rc=$?
  echo "$id rc=$rc $(( $(date +%s) - s ))s $(grep -c KNOWN-FINDING .work/quick_$id.log) known  $(grep -E 'INCONCLUSIVE|VIOLATION' .work/quick_$id.log | head -2 | cut -c1-150)"
done
