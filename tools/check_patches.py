#!/venv/bin/python
"""tools/check_patches.py [--fix]: verify that every mutants/*.patch and seeded/*/patch.diff applies to
/repo HEAD; with --fix, re-create those that only apply with a 3-way merge (scratch worktree)."""
import glob, subprocess, sys, tempfile, shutil
from pathlib import Path

fix = "--fix" in sys.argv
patches = sorted(glob.glob("/verif/mutants/*.patch")) + sorted(glob.glob("/verif/seeded/*/patch.diff"))
bad = []
for p in patches:
    r = subprocess.run(["git", "-C", "/repo", "apply", "--check", p], capture_output=True, text=True)
    if r.returncode == 0:
        continue
    status = "DOES NOT APPLY"
    if fix:
        scratch = Path(tempfile.mkdtemp(prefix="cp-"))
        wt = scratch / "repo"
        subprocess.run(["git", "-C", "/repo", "worktree", "add", "--detach", str(wt)], capture_output=True)
        r3 = subprocess.run(["git", "-C", str(wt), "apply", "--3way", p], capture_output=True, text=True)
        conflict = subprocess.run(["git", "-C", str(wt), "diff", "--name-only", "--diff-filter=U"], capture_output=True, text=True).stdout.strip()
        if r3.returncode == 0 and not conflict:
            diff = subprocess.run(["git", "-C", str(wt), "diff", "HEAD"], capture_output=True, text=True).stdout
            Path(p).write_text(diff)
            status = "re-created with 3-way merge"
        else:
            status = "CONFLICT (manual rebase needed)"
        subprocess.run(["git", "-C", "/repo", "worktree", "remove", "--force", str(wt)], capture_output=True)
        shutil.rmtree(scratch, ignore_errors=True)
    print(f"{status}: {p}")
    if "re-created" not in status:
        bad.append(p)
subprocess.run(["git", "-C", "/repo", "worktree", "prune"])
print(f"{len(patches)} patches checked, {len(bad)} need attention")
sys.exit(1 if bad else 0)
