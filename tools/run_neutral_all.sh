#!/bin/bash
# tools/run_neutral_all.sh - every stored behaviour-preserving refactoring against the checks anchored in the
# module it touches. Any "rc=1" line is a false alarm of a check; "rc=2" means a monitor lost its observable.
cd "$(dirname "$0")/.."
declare -A M=( [ext]="C07 C08 C09 C10 C04" [core]="C01 C06 C11 C12 C13 C20 C15 C19 C03" [serde]="C02 C03 C17 C13 C19 C18"
               [passes]="C05 C14 C15 C12 C13" [journal]="C20 C15 C06 C18 C01" [tensors]="C04 C07 C03 C02 C17" [symdev]="C16 C19 C03 C02" )
for d in neutral/*/; do
  n=$(basename $d); fam=${n%-*}
  tools/run_neutral.sh $n ${M[$fam]}
done
