#!/bin/bash
# tools/accept.sh C10 "commit message"  - claim a reviewed check: READY set, manifest, git add of its files
set -e
ID="$1"; id=$(echo "$ID" | tr A-Z a-z); MSG="${2:-$ID: check accepted}"
cd /verif
/venv/bin/python - "$ID" <<'PY'
import re,sys
p='/verif/tools/gen_manifest.py'
s=open(p).read()
m=re.search(r'READY = \{([^}]*)\}',s)
ids=set(re.findall(r'"(C\d+)"',m.group(1)))|{sys.argv[1]}
s=s[:m.start()]+'READY = {'+', '.join(f'"{i}"' for i in sorted(ids))+'}'+s[m.end():]
open(p,'w').write(s)
PY
/venv/bin/python tools/gen_manifest.py
git add tools/gen_manifest.py MANIFEST.json known_findings.json vfpy/props/$id.py $(ls vfpy/${id}_*.py 2>/dev/null) $(ls mutants/$ID-* 2>/dev/null) $(ls evidence/$ID.json 2>/dev/null)
git commit -qm "$MSG" && echo "accepted $ID"
