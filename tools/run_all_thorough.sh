#!/bin/bash
# tools/run_all_thorough.sh [seed] - thorough tier of every claimed check against /repo, sequentially
cd "$(dirname "$0")/.."
SEED="${1:-0}"
for id in $(/venv/bin/python -c "import json;print(' '.join(c['property_id'] for c in json.load(open('MANIFEST.json'))['checks']))"); do
  s=$(date +%s)
  VERIF_SEED=$SEED ./vf check $id thorough > .work/thorough_$id.log 2>&1; rc=$?
  cp evidence/$id.json .work/evidence_thorough_$id.json 2>/dev/null
  echo "$id rc=$rc $(( $(date +%s) - s ))s $(grep -c KNOWN-FINDING .work/thorough_$id.log) known  $(grep -E 'INCONCLUSIVE|VIOLATION' .work/thorough_$id.log | head -2 | cut -c1-150)"
done
