#!/venv/bin/python
"""Regenerates the generated sections of DESIGN.md (between <!-- BEGIN:x --> / <!-- END:x --> markers):
  seeded  - table of seeded changes and which check catches them
  fixes   - table of fixed findings from known_findings.json
  mutants - list of self-test mutants per property"""
import glob, json, re, subprocess
from pathlib import Path
ROOT = Path("/verif")
design = (ROOT / "DESIGN.md").read_text()

def seeded():
    rows = ["| seeded change | property | needs, to manifest | caught by (quick tier) |", "|---|---|---|---|"]
    for m in sorted(glob.glob(str(ROOT / "seeded/*/meta.json"))):
        d = json.loads(Path(m).read_text())
        name = Path(m).parent.name
        need = " ".join((d.get("needs_to_manifest") or "").split())
        need = re.sub(r"^#+\s*\S.*?\s{2,}", "", need)[:300]
        cr = d.get("check_result", {})
        sigs = "; ".join(re.sub(r"^\[C\d+\] violation signature: ", "", s) for s in cr.get("signatures", [])[:2])
        how = ("yes: `" + sigs[:160] + "`") if cr.get("caught") else "**no**"
        if cr.get("history"):
            how += " (" + cr["history"][:220] + ")"
        rows.append(f"| `{name}` | {d['property']} | {need} | {how} |")
    return "\n".join(rows)

def fixes():
    d = json.loads((ROOT / "known_findings.json").read_text())
    rows = []
    seen = {}
    for e in d["findings"]:
        if e.get("status") != "fixed":
            continue
        seen.setdefault(e.get("commit"), []).append(e)
    log = subprocess.run(["git", "-C", "/repo", "log", "--format=%h %s", "--reverse"], capture_output=True, text=True).stdout.splitlines()
    rows = ["| commit | subject | properties whose monitor witnessed it |", "|---|---|---|"]
    for l in log:
        h, _, subj = l.partition(" ")
        if not subj.startswith("fix:"):
            continue
        props = sorted({e["property"] for k, es in seen.items() if k and h.startswith(k[:7]) or (k and k.startswith(h)) for e in es})
        rows.append(f"| {h} | {subj[5:]} | {', '.join(props) or '-'} |")
    return "\n".join(rows)

def mutants():
    by = {}
    for p in sorted(glob.glob(str(ROOT / "mutants/*.patch"))):
        n = Path(p).stem
        by.setdefault(n.split("-")[0], []).append(n.split("-", 1)[1])
    return "\n".join(f"* **{k}**: " + ", ".join(v) for k, v in sorted(by.items()))

for key, fn in (("seeded", seeded), ("fixes", fixes), ("mutants", mutants)):
    b, e = f"<!-- BEGIN:{key} -->", f"<!-- END:{key} -->"
    if b in design:
        design = design[: design.index(b) + len(b)] + "\n" + fn() + "\n" + design[design.index(e):]
(ROOT / "DESIGN.md").write_text(design)
print("DESIGN.md tables regenerated")
