import onnx_ir as ir, onnx
from onnx_ir import _multi_device as md
print(ir.__file__)
def V(name, shape=None):
    return ir.Value(name=name, type=ir.TensorType(ir.DataType.FLOAT), shape=ir.Shape(shape) if shape is not None else None)
x=V("x",[2,"N",4]); y=V("y",None)
# subgraph
sx=V("sx",[3])
sn=ir.Node("", "Add", [x, sx], num_outputs=1, name="sn0"); sn.outputs[0].name="so0"
sg=ir.Graph([sx],[sn.outputs[0]],nodes=[sn],name="sub")
n0=ir.Node("", "Relu",[x],num_outputs=1,name="n0"); n0.outputs[0].name="a"; n0.outputs[0].shape=ir.Shape([2,3])
n1=ir.Node("", "If",[y, n0.outputs[0]],[ir.AttrGraph("then_branch",sg)],num_outputs=2,name="n1"); n1.outputs[0].name="b"; n1.outputs[1].name="c"
n2=ir.Node("custom","F",[n1.outputs[0]],num_outputs=1,name="n2"); n2.outputs[0].name="d"
g=ir.Graph([x,y],[n2.outputs[0]],nodes=[n0,n1,n2],name="main",opset_imports={"":21,"custom":1})
fx=V("x",[5,5])
fn=ir.Node("", "Neg",[fx],num_outputs=1,name="fn0"); fn.outputs[0].name="fo"
f=ir.Function("custom","F",graph=ir.Graph([fx],[fn.outputs[0]],nodes=[fn],opset_imports={"":21}),attributes=[])
m=ir.Model(g,ir_version=11,functions=[f])
c=m.add_device_configuration("c0",device_names=("a","b"))
n0.shard(x,configuration=c,axis=-1,num_shards=2,device_indices=[0,1])
sn.shard(x,configuration=c,axis=0,num_shards=2)
sn.shard(sx,configuration=c,axis=0,num_shards=2)
fn.shard(fx,configuration=c,axis=1,num_shards=5,pipeline_stage=1)
n1.shard(y,configuration=c,axis=7,num_shards=5)
print(md._check_device_configurations(m))
p=ir.to_proto(m)
print(p.graph.node[0].device_configurations)
m2=ir.from_proto(p)
print(md._check_device_configurations(m2))
for n in list(m2.graph.all_nodes())+[nn for ff in m2.functions.values() for nn in ff.all_nodes()]:
    for dc in n.device_configurations:
        print(n.name, dc.configuration is m2.device_configurations[0], [ (s.value.name, s.value in n.inputs or s.value in n.outputs) for s in dc.sharding_specs], dc.pipeline_stage)
m3=m.clone()
print(md._check_device_configurations(m3))
for n in list(m3.graph.all_nodes())+[nn for ff in m3.functions.values() for nn in ff.all_nodes()]:
    for dc in n.device_configurations:
        print(n.name, dc.configuration is m3.device_configurations[0], [ (s.value.name, any(s.value is i for i in n.inputs) or any(s.value is o for o in n.outputs)) for s in dc.sharding_specs], dc.pipeline_stage)
print([n.name for n in f.all_nodes()])
try:
    onnx.checker.check_model(p); print("checker ok")
except Exception as e: print("checker", e)
