import sys, time, json
sys.path.insert(0,'/verif')
from vfpy.ctx import Ctx
from vfpy.props import c16
tier=sys.argv[1]; cases=int(sys.argv[2]); shard=int(sys.argv[3]) if len(sys.argv)>3 else 0
lay=c16.layout(tier)
print(lay, c16.plan(tier)["cases"])
ctx=Ctx("C16",tier,int(sys.argv[4]) if len(sys.argv)>4 else 0,shard,16,cases,600,lay)
t=time.time(); c16.run(ctx); print('wall',time.time()-t)
print(json.dumps(dict(sorted(ctx.counters.items())),indent=0)[:6000])
print('evals',ctx.evaluations,'nontrivial',len(ctx.nontrivial))
for v in ctx.violations: print(v['count'], v['signature'],'\n   ',v['message'][:700])
for s in ctx.samples[:4]: print(s)
print(ctx.notes)
