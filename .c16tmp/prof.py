import sys, time, json, faulthandler
sys.path.insert(0,'/verif')
from vfpy.ctx import Ctx
from vfpy.props import c16
import onnx_ir as ir
tier='quick'; shard=int(sys.argv[1])
lay=c16.layout(tier)
# time each top-level call kind
import collections
T=collections.Counter(); slow=[]
def wrap(obj, name, label):
    orig=getattr(obj,name)
    def w(*a,**k):
        t=time.time()
        try: return orig(*a,**k)
        finally:
            dt=time.time()-t; T[label]+=dt
            if dt>2: slow.append((label, round(dt,1), str(a[0])[:300]))
    setattr(obj,name,w)
wrap(ir.SymbolicDim,'simplify','simplify')
wrap(ir.SymbolicDim,'evaluate','evaluate')
wrap(c16,'report_tree','report_tree')
wrap(c16,'report_string','report_string')
wrap(c16,'tree_case','tree_case')
wrap(c16,'strings_case','strings_case')
faulthandler.dump_traceback_later(120, exit=True)
ctx=Ctx("C16",tier,0,shard,16,c16.plan(tier)["cases"],100,lay)
t=time.time(); c16.run(ctx); print('wall',time.time()-t, 'cases', ctx.cases_done)
print(dict(T)); print(slow)
