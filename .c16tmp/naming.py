# ================================================================================================
# naming the mechanism of a failure (signatures); none of this decides whether a case fails
# ================================================================================================
def root_class(op: str) -> str:
    return {"floordiv": "rounding", "floor": "rounding", "ceil": "rounding", "trunc": "rounding",
            "mod": "Mod", "Mod": "Mod", "d%3": "Mod", "d//2": "rounding"}.get(op, op)


def _deepest_failing_subtree(t, fails_fn, limit=250):
    """Post-order: the first subtree that fails while none of its own subtrees does."""
    tested = 0

    def walk(n):
        nonlocal tested
        if X.is_leaf(n):
            return None
        for c in X.children(n):
            found = walk(c)
            if found is not None:
                return found
        if n is t:
            return None
        if not X.has_sym(n) or tested >= limit:
            return None
        tested += 1
        try:
            return n if fails_fn(n) else None
        except X.NotBuildable:
            return None

    return walk(t) or t


def _reparse_value(text, b):
    try:
        return as_exact(ir.SymbolicDim(text).evaluate(b))
    except Exception:  # noqa: BLE001
        return None


def explained_by_literal_grammar(text: str, pairs) -> bool:
    """``pairs``: (bindings, standard value or None).  True iff the library gives ``text`` exactly
    the value of the documented productions read literally (unary minus tighter than '**') under
    every binding, and that differs from the standard meaning under at least one."""
    differs = False
    for b, std in pairs:
        try:
            lit = G.literal_grammar_value(text, b)
        except (G.OutOfDomain, G.TooLarge):
            lit = None
        except (G.NotInGrammar, KeyError):
            return False
        if _reparse_value(text, b) != lit:
            return False
        if lit != std:
            differs = True
    return differs


def _std_values(pytext, names, bindings, funcs=G.FUNCS_ALLOWED + G.FUNCS_DIAGNOSTIC):
    """Python's reading of ``pytext`` under each binding (None when out of domain/too large)."""
    tree = G.python_meaning(pytext, funcs=funcs)
    alias_of = {real: alias for alias, real in names.items()}
    out = []
    for b in bindings:
        env = {alias_of[k]: Fraction(v) for k, v in b.items() if k in alias_of}
        try:
            out.append(G.eval_ast(tree, env))
        except (G.OutOfDomain, G.TooLarge, KeyError):
            out.append(None)
    return tree, out


def _shrink_text(pytext: str, names: dict[str, str], bindings):
    """Shrink the Python AST of a text on which the library disagrees with Python's meaning.
    Returns (minimal ast, its shape, minimal python text, minimal real text)."""
    tree = G.python_meaning(pytext, funcs=G.FUNCS_ALLOWED + G.FUNCS_DIAGNOSTIC)

    def fails(node) -> bool:
        try:
            ptxt = ast.unparse(node)
            expr = G.python_meaning(ptxt, funcs=G.FUNCS_ALLOWED + G.FUNCS_DIAGNOSTIC)
        except Exception:  # noqa: BLE001 - candidate not expressible: not a witness
            return False
        return bool(string_fails(G.real_text_from_python(ptxt, names), ptxt, names, bindings, expr=expr, extras=False))

    small = G.shrink_ast(tree.body, fails)
    ptxt = ast.unparse(small)
    return small, G.ast_shape(small), ptxt, G.real_text_from_python(ptxt, names)


def sympy_agrees_text(node, names, bindings, arith: str | None = None) -> bool:
    """Attribution: does SymPy itself, given the faithful translation of the standard reading,
    produce what the library produced (and is that wrong under some binding)?"""
    try:
        expr = T.from_ast(node, names)
        if arith:
            expr = T.ARITH[arith](expr)
    except Exception:  # noqa: BLE001
        return False
    ptxt = ast.unparse(node)
    real = G.real_text_from_python(ptxt, names)
    alias_of = {r: a for a, r in names.items()}
    wrong = False
    for b in bindings:
        env = {alias_of[k]: Fraction(v) for k, v in b.items() if k in alias_of}
        try:
            std = G.eval_ast(node, env)
            if arith:
                std = _ARITH_EXACT[arith](std)
        except (G.OutOfDomain, G.TooLarge, KeyError):
            continue
        try:
            d = ir.SymbolicDim(real)
            if arith:
                d = _ARITH_REAL[arith](d)
            lib = as_exact(d.evaluate(b))
        except Exception:  # noqa: BLE001
            lib = None
        try:
            twin = T.value(expr, b)
        except Exception:  # noqa: BLE001
            twin = None
        if twin != lib:
            return False
        if lib != std:
            wrong = True
    return wrong


def name_text_disagreement(text, pytext, names, bindings) -> tuple[str, str | None]:
    """Mechanism name for 'the library's value of ``text`` differs from Python's reading'."""
    tree, stds = _std_values(pytext, names, bindings, funcs=G.FUNCS_ALLOWED + G.FUNCS_DIAGNOSTIC)
    pairs = [(b, s) for b, s in zip(bindings, stds)]
    if explained_by_literal_grammar(text, pairs):
        return "unary-minus-power", None
    try:
        small, shape, sptxt, sreal = _shrink_text(pytext, names, bindings)
    except Exception:  # noqa: BLE001 - naming only
        return "unshrunk", None
    named = G.mechanism_name(shape)
    if named != shape:
        return named, sreal
    if explained_by_literal_grammar(sreal, list(zip(bindings, _std_values(sptxt, names, bindings)[1]))):
        return "unary-minus-power", sreal
    if sympy_agrees_text(small, names, bindings):
        return f"same-in-sympy:{root_class(shape.split('(')[0])}", sreal
    # does the failure depend on the spelling (whitespace, leading zeros, identifier form)?
    normal = ast.unparse(tree)
    if not string_fails(G.real_text_from_python(normal, names), normal, names, bindings, extras=False):
        feats = []
        if re.search(r"\s{2,}|\t|^\s|\s$", text):
            feats.append("whitespace")
        if re.search(r"(?<![\w.])0\d", text):
            feats.append("leading-zero")
        if any(not re.fullmatch(r"[A-Za-z_]\w*", n) for n in names.values()):
            feats.append("dotted-identifier")
        return "text-form-sensitive:" + ("+".join(feats) or "parentheses/spacing"), sreal
    return shape, sreal


def classify_printed_text(text: str, pairs) -> tuple[str, str, str | None]:
    """A printed text parses but evaluates differently from the dimension it was printed from
    (``pairs``: (bindings, value of the dimension)).  Is the text wrong (Python's reading of it
    differs from the dimension) or does the parser misread a correct text?"""
    bindings = [b for b, _ in pairs]
    pytext, names = G.alias_text(text, set().union(*[set(b) for b in bindings]))
    try:
        _, stds = _std_values(pytext, names, bindings)
    except G.NotInGrammar:
        return "value-changed", "", None
    if any(s != want for s, (_, want) in zip(stds, pairs)):
        return "printed-text-wrong", "", None
    mech, minimal = name_text_disagreement(text, pytext, names, bindings)
    return "parser-misreads", mech, minimal


def _partial_order(names: list[str], k: int) -> list[str]:
    order = list(names)
    return [order.pop(k % len(order)) for _ in range(len(order))] if order else order


def sympy_agrees_tree(t, bindings, kind: str, order_seed: int) -> bool:
    try:
        expr = T.from_tree(t)
        e = X.build_real(t, ir.SymbolicDim)
        if kind == "simplify":
            expr = T.simplified(expr)
            e = e.simplify()
    except Exception:  # noqa: BLE001
        return False
    wrong = False
    for bi, b in enumerate(bindings):
        try:
            want = X.exact(t, b)
        except G.OutOfDomain:
            continue
        order = _partial_order(sorted(b), order_seed + bi) if kind == "partial" else None
        try:
            r = e
            for s_ in order or []:
                if isinstance(r, ir.SymbolicDim):
                    r = r.evaluate({s_: b[s_]})
            lib = as_exact(r.evaluate(b) if isinstance(r, ir.SymbolicDim) else r)
        except Exception:  # noqa: BLE001
            lib = None
        try:
            twin = T.value(expr, b, order)
        except Exception:  # noqa: BLE001
            twin = None
        if twin != lib:
            return False
        if lib != want:
            wrong = True
    return wrong


def _floor_printed_as_identity(t, bindings) -> str | None:
    """Message detail: a subexpression with a non-integer exact value whose floor the library
    prints as the subexpression itself (its integrality is misjudged)."""
    import math

    def walk(n):
        if X.is_leaf(n):
            return None
        for c in X.children(n):
            r = walk(c)
            if r:
                return r
        for probe in ([["truediv", n[1], n[2]]] if n[0] == "floordiv" else []) + [n]:
            try:
                d = X.build_real(probe, ir.SymbolicDim)
                if not isinstance(d, ir.SymbolicDim):
                    continue
                for b in bindings:
                    try:
                        v = X.exact(probe, b)
                    except G.OutOfDomain:
                        continue
                    if v.denominator != 1 and str(math.floor(d)) == str(d + 0):
                        return str(d + 0)
            except Exception:  # noqa: BLE001
                continue
        return None

    return walk(t)


def report_tree(ctx, t, bindings, fails, order_seed, via_shape, source) -> None:
    """Shrink each distinct failure class of this tree and report it under a mechanism-level
    signature."""
    seen: set = set()
    for f in fails:
        if f.key in seen:
            continue
        seen.add(f.key)
        try:
            with bounded(NAMING_LIMIT_S):
                sig, small, w, detail = _name_tree_failure(t, bindings, f, order_seed, via_shape)
        except Slow:
            ctx.count("violations_unnamed_abandoned_slow")
            ctx.note(f"naming abandoned (slow): {f.describe()[:300]} in {X.pretty(t)[:300]}")
            continue
        msg = (
            f"{w.describe()}\n  minimal witness: {X.pretty(small)}   tree={small}\n"
            f"  found in ({source}): {X.pretty(t)}" + (f"\n  {detail}" if detail else "")
        )
        ctx.violation(sig, msg, {
            "what": "tree", "tree": small, "bindings": bindings, "order_seed": order_seed,
            "via_shape": via_shape, "original": t,
        })


def _name_tree_failure(t, bindings, f, order_seed, via_shape):
    which = (f.kind,) if f.kind in ALL_KINDS else ("eval",)
    if f.stage == "simplified":
        which = ("simplify", "print-parse")
    elif f.stage == "residual":
        which = ("partial", "print-parse")
    costly = "simplify" in which

    def same(cand, _key=f.key, _which=which):
        got = tree_fails(cand, bindings, _which, _nocount, order_seed, via_shape)
        return bool(got) and any(g.key == _key for g in got)

    small = _deepest_failing_subtree(t, same)
    if not costly or X.n_ops(small) <= 8:
        small = X.shrink_tree(small, same, max_tests=12 if costly else 40)
    again = [g for g in (tree_fails(small, bindings, which, _nocount, order_seed, via_shape) or []) if g.key == f.key]
    w = again[0] if again else f
    if not again:
        small = t
    stage = f"|stage={w.stage}" if w.stage else ""
    detail = None
    if w.kind == "print-parse" and w.cls == "unparseable":
        names = undocumented_functions(w.text or "")
        what = "+".join(names) if names else (_exc_class(w.got) if isinstance(w.got, BaseException) else "?")
        sig = f"print-parse|unparseable:{what}|root={small[0]}{stage}"
    elif w.kind == "print-parse" and w.cls == "value-changed":
        cls, mech, minimal = classify_printed_text(w.text, [(w.binding, w.want)])
        if cls != "parser-misreads":
            mech = X.shape(small)
        if minimal:
            detail = f"minimal text: {minimal!r}"
        sig = f"print-parse|{cls}|{mech}{stage}"
    else:
        sig = f"{w.kind}|{w.cls}|{X.shape(small)}{stage}"
        if w.kind in ("eval", "partial", "simplify", "build") and sympy_agrees_tree(small, bindings, w.kind, order_seed):
            sig = f"{w.kind}|{w.cls.split(':')[0]}|same-in-sympy:{root_class(small[0])}"
            culprit = _floor_printed_as_identity(small, bindings)
            detail = "SymPy returns the same value for the faithfully translated expression"
            if culprit:
                detail += f"; floor({culprit}) is printed as {culprit} although its value is not an integer"
    return sig, small, w, detail


