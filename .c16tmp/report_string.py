def report_string(ctx, text, pytext, names, bindings, fails, source) -> None:
    seen = set()
    for f in fails:
        if f.key in seen:
            continue
        seen.add(f.key)
        try:
            with bounded(NAMING_LIMIT_S):
                sig, minimal = _name_string_failure(text, pytext, names, bindings, f)
        except Slow:
            ctx.count("violations_unnamed_abandoned_slow")
            ctx.note(f"naming abandoned (slow): {f.describe()[:300]}")
            continue
        msg = f"{f.describe()}\n  string ({source}): {text!r}   python reading: {pytext!r} with {names}"
        if minimal:
            msg += f"\n  minimal witness: {minimal!r}"
        ctx.violation(sig, msg, {
            "what": "string", "text": text, "pytext": pytext, "names": names, "bindings": bindings,
            "minimal": minimal,
        })


def _name_string_failure(text, pytext, names, bindings, f):
    minimal = None
    if f.kind == "grammar":
        mech, minimal = name_text_disagreement(text, pytext, names, bindings)
        cls = f.cls if not mech.startswith(("same-in-sympy", "unary-minus-power")) else f.cls.split(":")[0]
        sig = f"grammar|{cls.split('(')[0]}|{mech}"
    elif f.kind == "print-parse" and f.cls == "unparseable":
        fn = undocumented_functions(f.text or "")
        what = "+".join(fn) if fn else (_exc_class(f.got) if isinstance(f.got, BaseException) else "?")
        sig = f"print-parse|unparseable:{what}|stage=parsed-then-printed"
    elif f.kind == "print-parse" and f.cls == "value-changed":
        cls, mech, minimal = classify_printed_text(f.text, [(f.binding, f.want)])
        sig = f"print-parse|{cls}|{mech or 'unclassified'}|stage=parsed-then-printed"
    elif f.kind == "text-then-arith":
        tree = G.python_meaning(pytext)
        if sympy_agrees_text(tree.body, names, bindings, arith=f.stage):
            sig = f"text-then-arith|{f.cls.split(':')[0]}|same-in-sympy:{root_class(f.stage)}"
        else:
            sig = f"text-then-arith|{f.cls}|{f.stage}"
    else:
        sig = f"{f.kind}|{f.cls}|{f.stage}"
    return sig, minimal


