import sys, time, json
sys.path.insert(0,'/verif')
from vfpy.ctx import Ctx
from vfpy.props import c16
import onnx_ir
known=set()
for f in json.load(open('/verif/findings_proposed/C16.json'))['findings']: known.update(f['signatures'])
tier='quick'; shard=int(sys.argv[1]); seed=int(sys.argv[2]); budget=float(sys.argv[3])
ctx=Ctx("C16",tier,seed,shard,16,c16.plan(tier)["cases"],budget,c16.layout(tier))
t=time.time(); c16.run(ctx)
print(onnx_ir.__file__, 'wall',round(time.time()-t,1),'cases',ctx.cases_done,'evals',ctx.evaluations, 'abandoned', ctx.counters.get('cases_abandoned_slow',0), ctx.counters.get('violations_unnamed_abandoned_slow',0))
for v in ctx.violations:
    if v['signature'] not in known: print('  UNKNOWN', v['count'], v['signature'], '\n      ', v['message'][:300].replace('\n',' | '))
print('  known seen:', sorted(v['signature'] for v in ctx.violations if v['signature'] in known))
