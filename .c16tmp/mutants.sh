#!/bin/bash
cd /verif
for m in /verif/mutants/C16-*.patch; do
  git -C /tmp/wt-c16 checkout -- . ; git -C /tmp/wt-c16 apply $m || echo APPLY-FAILED
  echo "=== $m"
  VF_REPO=/tmp/wt-c16 VF_EXTRA_FINDINGS=findings_proposed/C16.json ./vf check C16 quick > /verif/.c16tmp/mut.log 2>&1
  echo "exit=$?"
  grep -c "^VIOLATION" /verif/.c16tmp/mut.log
  grep "violation signature" /verif/.c16tmp/mut.log | head -8
  grep "^INCONCLUSIVE" /verif/.c16tmp/mut.log | head -3
  git -C /tmp/wt-c16 checkout -- .
done
