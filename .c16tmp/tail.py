def judge_string(ctx, text, pytext, names, bindings, source, extra_sel=0, extras=True) -> None:
    try:
        expr = G.python_meaning(pytext)
    except G.NotInGrammar as exc:
        # the harness derived a text Python does not read as the documented grammar: harness gap
        ctx.count("harness_python_rejected_derivation")
        ctx.note(f"python rejected a derived string: {pytext!r}: {exc}")
        return
    before = ctx.counters.get("grammar_compared", 0)
    fails = string_fails(text, pytext, names, bindings, expr=expr, extras=extras, count=ctx.count, extra_sel=extra_sel)
    judged = ctx.counters.get("grammar_compared", 0) > before
    ctx.count("grammar_strings")
    has_op = isinstance(expr.body, (ast.BinOp, ast.UnaryOp, ast.Call))
    ctx.evaluation(key={"s": text}, nontrivial=bool(judged and has_op))
    if fails:
        report_string(ctx, text, pytext, names, bindings, fails, source)


# ================================================================================================
# case generation
# ================================================================================================
def _value(rng) -> int:
    r = rng.random()
    if r < 0.70:
        return rng.randint(1, 12)
    if r < 0.90:
        return rng.choice((1, 2, 16, 17, 31, 32, 64, 100, 127, 128, 255, 256, 1000))
    return rng.choice((1024, 4096, 65535, 2**31 - 1, 2**31, 10**12 + 39))


def tree_case(ctx, rng, case) -> None:
    syms = ["N", "M", "K"][: rng.choice((1, 2, 2, 3, 3))]
    depth = rng.choice((1, 2, 2, 3, 3, 3, 4, 4, 5, 6))
    for _ in range(8):
        t = X.gen_tree(rng, depth, syms)
        if not X.is_leaf(t) and X.n_ops(t) <= 40:
            break
    else:
        t = ["add", ["sym", "N"], ["int", 1]]
    bindings = []
    for _ in range(3):
        b = {"N": _value(rng), "M": _value(rng), "K": _value(rng), "unused_dim": _value(rng)}
        bindings.append(b)
    # small values first: most discriminating for floor/mod
    bindings[0] = {k: (v if v <= 12 else rng.randint(1, 12)) for k, v in bindings[0].items()}
    order_seed = rng.randrange(6)
    via_shape = rng.random() < 0.3
    # SymPy's simplify is the dominant cost and grows steeply with size: big trees go without
    kinds = ALL_KINDS
    if X.n_ops(t) > 14:
        kinds = tuple(k for k in ALL_KINDS if k != "simplify")
        ctx.count("trees_too_big_for_simplify")
    judge_tree(ctx, t, bindings, order_seed, via_shape, f"random case {case}", kinds)


def strings_case(ctx, rng, case) -> None:
    for i in range(STRINGS_PER_CASE):
        tt = G.random_string(rng)
        pytext = tt.python_text()
        text = tt.parser_text(rng if rng.random() < 0.7 else None)
        names = {alias: real for real, alias in tt.alias.items()}
        bindings = []
        for j in range(3):
            small = j < 2
            bindings.append({real: (rng.randint(1, 9) if small else _value(rng)) for real in names.values()})
        judge_string(ctx, text, pytext, names, bindings, f"random case {case}.{i}", extra_sel=rng.randrange(7),
                     extras=rng.random() < 0.6)
        if i == 0 and len(ctx.samples) < ctx.MAX_SAMPLES:
            ctx.sample({"string": text, "python_reading": pytext, "names": names, "bindings": bindings[0]})


def run(ctx) -> None:
    lay = dict(layout(ctx.tier))
    lay.update(ctx.params or {})
    eb, sb = int(lay["enum_blocks"]), int(lay["small_blocks"])
    max_ops = int(lay["max_ops"])
    enum_iter = None
    enum_pos = 0
    small_trees = None
    names_enum = {"N": "N", "M": "M"}
    my_enum_blocks = 0
    done_enum_blocks = 0
    for case in range(ctx.shard, eb, ctx.nshards):
        my_enum_blocks += 1
    extra_binding_rng = ctx.rng("enum-binding")
    enum_bindings = ENUM_BINDINGS + [{"N": extra_binding_rng.randint(2, 9), "M": extra_binding_rng.randint(2, 9)}]
    small_bindings = SMALL_BINDINGS + [
        {"N": extra_binding_rng.randint(1, 12), "M": extra_binding_rng.randint(1, 12), "K": extra_binding_rng.randint(1, 12)}
    ]
    for case in ctx.case_ids():
        if case < eb:
            if enum_iter is None:
                enum_iter = G.enumerate_strings(max_ops, ENUM_OPERANDS)
            start = case * ENUM_BLOCK
            while enum_pos < start:
                next(enum_iter, None)
                enum_pos += 1
            n = 0
            for _ in range(ENUM_BLOCK):
                text = next(enum_iter, None)
                if text is None:
                    break
                enum_pos += 1
                n += 1
                ctx.count("enum_strings")
                judge_string(ctx, text, text, names_enum, enum_bindings, f"enumeration <= {max_ops} operators",
                             extra_sel=enum_pos, extras=(enum_pos % 4 == 0))
            if case == eb - 1:
                # the last block must end exactly at the announced size of the space
                if enum_pos != ENUM_SIZE[max_ops] or next(enum_iter, None) is not None:
                    raise AssertionError(f"enumeration size {enum_pos} != announced {ENUM_SIZE[max_ops]}")
            done_enum_blocks += 1
        elif case < eb + sb:
            if small_trees is None:
                small_trees = list(X.enumerate_small_trees())
            k = case - eb
            for idx in range(k * SMALL_BLOCK, min(len(small_trees), (k + 1) * SMALL_BLOCK)):
                ctx.count("small_trees")
                judge_tree(ctx, small_trees[idx], small_bindings, idx % 6, idx % 2 == 1, f"small-tree enumeration #{idx}")
        else:
            rng = ctx.rng(case)
            tree_case(ctx, rng, case)
            strings_case(ctx, rng, case)
    ctx.exhaustive = done_enum_blocks == my_enum_blocks


# ================================================================================================
def replay(replay_data, ctx) -> None:
    if replay_data.get("what") == "tree":
        t = replay_data["tree"]
        bindings = replay_data["bindings"]
        fails = tree_fails(t, bindings, ALL_KINDS, ctx.count, replay_data.get("order_seed", 0), replay_data.get("via_shape", False))
        if fails:
            report_tree(ctx, t, bindings, fails, replay_data.get("order_seed", 0), replay_data.get("via_shape", False), "replay")
    elif replay_data.get("what") == "string":
        text, pytext = replay_data["text"], replay_data["pytext"]
        names, bindings = replay_data["names"], replay_data["bindings"]
        for sel in range(7):
            fails = string_fails(text, pytext, names, bindings, count=ctx.count, extra_sel=sel)
            if fails:
                report_string(ctx, text, pytext, names, bindings, fails, "replay")
