# ================================================================================================
# grammar strings
# ================================================================================================
def string_fails(text: str, pytext: str, names: dict[str, str], bindings, expr=None, extras=True,
                 count=_nocount, extra_sel=0) -> list[Fail]:
    """``text`` for the library, ``pytext`` the same token sequence for Python (aliases ->
    ``names``); ``bindings`` map real names to ints."""
    if expr is None:
        expr = G.python_meaning(pytext)
    alias_of = {real: alias for alias, real in names.items()}
    wants = []
    for b in bindings:
        env = {alias_of[k]: Fraction(v) for k, v in b.items() if k in alias_of}
        try:
            wants.append(G.eval_ast(expr, env))
        except G.OutOfDomain:
            wants.append(None)
        except G.TooLarge:
            count("grammar_binding_skipped_too_large")
            wants.append(None)
    if all(w is None for w in wants):
        count("grammar_out_of_domain_for_all_bindings")
        return []
    first = next(b for b, w in zip(bindings, wants) if w is not None)
    try:
        d = ir.SymbolicDim(text)
    except Exception as exc:  # noqa: BLE001
        return [Fail("grammar", "rejected:" + _exc_class(exc), binding=first, text=text, exc=_exc(exc))]
    fails: list[Fail] = []
    in_dom = []
    for b, want in zip(bindings, wants):
        if want is None:
            count("grammar_out_of_domain")
            continue
        try:
            r = d.evaluate(b)
        except Exception as exc:  # noqa: BLE001 - every string of the grammar has a meaning
            fails.append(Fail("grammar", "rejected:" + _exc_class(exc), binding=b, want=want, text=text, exc=_exc(exc)))
            break
        count("grammar_compared")
        got = as_exact(r)
        if got is None:
            fails.append(Fail("grammar", "non-numeric-result", binding=b, got=r, want=want, text=text))
            break
        if got != want:
            fails.append(Fail("grammar", "wrong-value", binding=b, got=r, want=want, text=text))
            break
        in_dom.append((b, want))
    if fails or not extras or not in_dom:
        return fails
    # free symbols of a parsed text: exactly the identifiers that survive SymPy's cancellation
    try:
        fs = set(d.free_symbols())
        if not fs <= set(names.values()):
            fails.append(Fail("grammar", "free_symbols-invents-symbol", got=sorted(fs), want=sorted(names.values()), text=text))
    except Exception as exc:  # noqa: BLE001
        fails.append(Fail("grammar", "free_symbols-raises:" + _exc_class(exc), text=text, exc=_exc(exc)))
    # SymbolicDim(text) followed by arithmetic
    forms = (
        ("d+1", lambda x: x + 1, lambda v: v + 1),
        ("3-d", lambda x: 3 - x, lambda v: 3 - v),
        ("d*2", lambda x: x * 2, lambda v: v * 2),
        ("-d", lambda x: -x, lambda v: -v),
        ("d//2", lambda x: x // 2, lambda v: Fraction(v // 2)),
        ("d%3", lambda x: x % 3, lambda v: v % 3),
        ("d*1", lambda x: x * 1, lambda v: v),
    )
    name, real_f, exact_f = forms[extra_sel % len(forms)]
    try:
        d2 = real_f(d)
    except Exception as exc:  # noqa: BLE001
        return fails + [Fail("text-then-arith", "raises:" + _exc_class(exc), stage=name, text=text, exc=_exc(exc), binding=in_dom[0][0])]
    count(f"text_then_arith_{name}")
    moved = []
    for b, want in in_dom:
        want2 = exact_f(want)
        try:
            r = d2.evaluate(b)
        except Exception as exc:  # noqa: BLE001
            fails.append(Fail("text-then-arith", "raises:" + _exc_class(exc), stage=name, binding=b, want=want2, text=text, exc=_exc(exc)))
            return fails
        count("text_then_arith_compared")
        if as_exact(r) != want2:
            fails.append(Fail("text-then-arith", "wrong-value", stage=name, binding=b, got=r, want=want2, text=text))
            return fails
        moved.append((b, want2))
    # ... and what arithmetic printed must parse back
    fails.extend(reparse_fails(d2, moved, "parsed-then-" + name, count))
    return fails


