"""C16 - symbolic dimensions compute, print and re-parse with integer semantics.

Monitors (all on the real ``onnx_ir`` objects, through public API only):

* twin construction - every generated expression tree is built with the real ``SymbolicDim``
  operator overloads (``+ - * // / %`` with ints on either side, unary minus,
  ``math.floor/ceil/trunc``; ``min``/``max`` entered as text because the API has no other way)
  and, independently, with exact ``Fraction`` arithmetic (``vfpy/c16_expr.py``);
* ``evaluate`` under complete bindings, under one-symbol-at-a-time partial bindings in a random
  order (the residual must not mention a bound symbol and must complete to the same value),
  after ``simplify()`` (of the dimension or of a ``Shape`` holding it), after print -> parse
  (``SymbolicDim(str(e))``; also of the partial residual and of the simplified dimension), after
  ``Shape.evaluate`` and after a serde round trip of a value whose shape holds the dimension
  (``dim_param``);
* strings of the documented grammar (random derivations; bounded exhaustive enumeration of flat
  and singly parenthesised strings) judged against Python's own parse of the same text evaluated
  with ``Fraction`` operands (``vfpy/c16_grammar.py``), then used in further arithmetic and
  printed and re-parsed.

Out-of-domain cases (exact value needs a division by zero or an irrational/complex power) and
cases too large to hand to SymPy are skipped and counted.
"""

from __future__ import annotations

import ast
import re
from fractions import Fraction

import onnx
import onnx_ir as ir
from onnx_ir import serde as ir_serde

from vfpy import c16_expr as X
from vfpy import c16_grammar as G

ID = "C16"
LEVEL = "exploration"
RULE = (
    "tree case: random tree (depth <= 6, 1-3 symbols, int literals on either side) or a member of "
    "the enumerated family of all 1-2 operator trees; non-trivial iff it has >= 2 operators, at "
    "least one binding is in domain and the real build produced a SymbolicDim; distinct by tree. "
    "string case: random derivation of the documented grammar, or a member of the enumeration "
    "(all flat strings 'u x (op u x)*' and all such strings with one parenthesised operand range, "
    "operands {N,M,2}, seven binary operators, unary-minus runs, total operators <= 2 quick / <= 3 "
    "thorough); non-trivial iff >= 1 operator and >= 1 binding in domain; distinct by text. "
    "'exhaustive' refers to that enumerated string space only."
)
ASSUMPTIONS = [
    "Python's ast.parse gives the standard precedence/associativity; Fraction arithmetic is exact",
    "bindings are positive integers (symbols are declared positive integers by the library)",
    "out-of-domain (division by zero, irrational/complex power) and too-large cases are skipped",
    "min/max can only be entered as text: SymbolicDim('max(a, b)') with harness-rendered operands",
    "int // dim and int % dim are not offered by the library (TypeError): counted report-only",
    "a greedy shrink names the mechanism; two defects in one expression may be reported as one",
]

ENUM_OPERANDS = ("N", "M", "2")
ENUM_BLOCK = 150
SMALL_BLOCK = 8
STRINGS_PER_CASE = 5
# (max_ops -> size) of G.enumerate_strings over 3 operands; verified at run time by the last block
ENUM_SIZE = {2: 4230, 3: 187185}
ENUM_BINDINGS = [
    {"N": 3, "M": 5},
    {"N": 4, "M": 2},
    {"N": 7, "M": 3},
]
SMALL_BINDINGS = [
    {"N": 3, "M": 5, "K": 2},
    {"N": 8, "M": 3, "K": 7},
    {"N": 1, "M": 1, "K": 1},
    {"N": 5, "M": 12, "K": 4},
]
_N_SMALL = None


def n_small_trees() -> int:
    global _N_SMALL
    if _N_SMALL is None:
        _N_SMALL = sum(1 for _ in X.enumerate_small_trees())
    return _N_SMALL


def layout(tier: str) -> dict:
    max_ops = 2 if tier == "quick" else 3
    enum_blocks = -(-ENUM_SIZE[max_ops] // ENUM_BLOCK)
    small_blocks = -(-n_small_trees() // SMALL_BLOCK)
    mixed = 2400 if tier == "quick" else 36000
    return {"max_ops": max_ops, "enum_blocks": enum_blocks, "small_blocks": small_blocks, "mixed": mixed}


def plan(tier: str) -> dict:
    lay = layout(tier)
    quick = tier == "quick"
    return {
        "cases": lay["enum_blocks"] + lay["small_blocks"] + lay["mixed"],
        "shards": 16,
        "budget_s": 48 if quick else 540,
        "floors": {
            "eval_compared": 3000 if quick else 40000,
            "partial_compared": 1000 if quick else 15000,
            "simplify_compared": 800 if quick else 10000,
            "printparse_compared": 1500 if quick else 20000,
            "serde_compared": 500 if quick else 8000,
            "shape_evaluate_compared": 500 if quick else 8000,
            "grammar_compared": 8000 if quick else 300000,
            "enum_strings": ENUM_SIZE[lay["max_ops"]],
            "small_trees": n_small_trees(),
            "op_floordiv(dim,int)": 100,
            "op_mod(dim,dim)": 100,
            "op_sub(int,dim)": 50,
            "op_truediv(int,dim)": 30,
            "op_ceil": 100,
            "op_trunc": 100,
            "op_floor": 100,
            "op_neg": 100,
            "op_min(text)": 30,
            "op_max(text)": 30,
        },
        "min_nontrivial": 1500 if quick else 50000,
        "params": lay,
    }


# ================================================================================================
# reading a result
# ================================================================================================
_RATIONAL = re.compile(r"\s*(-?\d+)\s*(?:/\s*(\d+))?\s*")


def as_exact(r) -> Fraction | None:
    """The rational value of what ``evaluate`` returned: an int, or a dimension whose text is a
    rational literal (p, -p, p/q, -p/q)."""
    if isinstance(r, bool):
        return None
    if isinstance(r, int):
        return Fraction(r)
    if isinstance(r, ir.SymbolicDim) and isinstance(r.value, str):
        m = _RATIONAL.fullmatch(r.value)
        if m and (m.group(2) is None or int(m.group(2)) != 0):
            return Fraction(int(m.group(1)), int(m.group(2) or 1))
    return None


def show(r) -> str:
    return repr(r) if not isinstance(r, Fraction) else str(r)


class Fail:
    __slots__ = ("kind", "cls", "stage", "binding", "got", "want", "text", "exc")

    def __init__(self, kind, cls, stage="", binding=None, got=None, want=None, text=None, exc=None):
        self.kind, self.cls, self.stage = kind, cls, stage
        self.binding, self.got, self.want, self.text, self.exc = binding, got, want, text, exc

    @property
    def key(self):
        return (self.kind, self.cls, self.stage)

    def describe(self) -> str:
        s = f"{self.kind}/{self.cls}" + (f"[{self.stage}]" if self.stage else "")
        if self.text is not None:
            s += f" text={self.text!r}"
        if self.binding is not None:
            s += f" bindings={self.binding}"
        if self.want is not None or self.got is not None:
            s += f" got={show(self.got)} expected={show(self.want)}"
        if self.exc:
            s += f" raised={self.exc}"
        return s


def _nocount(key, n=1):
    return None


def _exc(exc: BaseException) -> str:
    return f"{type(exc).__name__}: {str(exc)[:160]}"


def _exc_class(exc: BaseException) -> str:
    """Exception type plus the constant head of its message (up to the first quote/digit)."""
    head = re.split(r"['\"\d]", str(exc), 1)[0].strip().rstrip(":").strip()
    return f"{type(exc).__name__}({head[:40]})"


def undocumented_functions(text: str) -> list[str]:
    names = set(re.findall(r"([A-Za-z_][A-Za-z0-9_.]*)\s*\(", text))
    return sorted(names - set(G.FUNCS_ALLOWED))


# ================================================================================================
# print -> parse of one dimension
# ================================================================================================
def reparse_fails(dim, in_dom, stage, count) -> list[Fail]:
    """``in_dom``: list of (bindings, expected_value_of_dim).  The text of ``dim`` must construct
    a dimension with the same evaluations."""
    text = str(dim)
    out: list[Fail] = []
    if text != dim.value:
        out.append(Fail("print-parse", "str-differs-from-value", stage, text=text))
    try:
        again = ir.SymbolicDim(text)
    except Exception as exc:  # noqa: BLE001 - constructor is lazy; any raise is a finding
        return [Fail("print-parse", "unparseable", stage, text=text, exc=_exc(exc), binding=in_dom[0][0])]
    for b, want in in_dom:
        try:
            r = again.evaluate(b)
        except Exception as exc:  # noqa: BLE001 - the statement says the text parses back
            count("printparse_unparseable")
            out.append(Fail("print-parse", "unparseable", stage, text=text, exc=_exc(exc), binding=b))
            out[-1].got = exc
            break
        got = as_exact(r)
        count("printparse_compared")
        if got != want:
            out.append(Fail("print-parse", "value-changed", stage, b, r, want, text))
            break
    return out


# ================================================================================================
# all checks on one tree
# ================================================================================================
ALL_KINDS = ("eval", "partial", "simplify", "print-parse", "shape", "serde")


def tree_fails(t, bindings, which=ALL_KINDS, count=_nocount, order_seed=0, via_shape=False) -> list[Fail] | None:
    """Run the selected monitors on tree ``t``.  Returns None when the case is report-only
    (unsupported reflected operator).  Raises X.NotBuildable for harness-side non-cases."""
    exacts = []
    for b in bindings:
        try:
            exacts.append(X.exact(t, b))
        except G.OutOfDomain:
            exacts.append(None)
    any_in_domain = any(v is not None for v in exacts)
    try:
        e = X.build_real(t, ir.SymbolicDim, count)
    except X.UnsupportedReflected as u:
        count(f"report_only_unsupported_reflected_{u.op}")
        return None
    except X.NotBuildable:
        raise
    except Exception as exc:  # noqa: BLE001 - construction may raise only out of domain
        if any_in_domain:
            return [Fail("build", "raises:" + _exc_class(exc), exc=_exc(exc),
                         binding=next(b for b, v in zip(bindings, exacts) if v is not None))]
        count("build_raised_out_of_domain_" + type(exc).__name__)
        return []
    if not isinstance(e, ir.SymbolicDim):
        return [Fail("build", "result-not-SymbolicDim:" + type(e).__name__)]
    count("trees_built")
    if not any_in_domain:
        count("trees_out_of_domain_for_all_bindings")
        return []
    fails: list[Fail] = []
    reals: list[Fraction | None] = []  # what evaluate returned (as rational) per binding
    in_dom: list[tuple[dict, Fraction]] = []

    # ---- complete bindings ---------------------------------------------------------------------
    for b, want in zip(bindings, exacts):
        if want is None:
            count("eval_out_of_domain")
            reals.append(None)
            continue
        try:
            r = e.evaluate(b)
        except Exception as exc:  # noqa: BLE001
            if "eval" in which:
                fails.append(Fail("eval", "raises:" + _exc_class(exc), binding=b, want=want, exc=_exc(exc)))
            reals.append(None)
            continue
        got = as_exact(r)
        reals.append(got)
        if "eval" in which:
            count("eval_compared")
            if got is None:
                fails.append(Fail("eval", "non-numeric-result", binding=b, got=r, want=want))
            elif got != want:
                fails.append(Fail("eval", "wrong-value", binding=b, got=r, want=want))
            elif not isinstance(r, int) and want.denominator == 1:
                count("report_only_integer_returned_as_dimension")
            elif not isinstance(r, int):
                count("eval_rational_results")
        if got is not None:
            in_dom.append((b, got))
    if fails and "eval" in which:
        # everything below compares against evaluate(); report the root cause only
        return fails
    if not in_dom:
        return fails

    # ---- partial bindings, one symbol at a time ------------------------------------------------
    residual_for_reparse = None
    if "partial" in which:
        names = sorted(bindings[0])
        for bi, (b, want) in enumerate(in_dom[:2]):
            order = list(names)
            # deterministic permutation from order_seed
            k = order_seed + bi
            order = [order.pop(k % len(order)) for _ in range(len(order))] if order else order
            r = e
            bound: list[str] = []
            bad = None
            for s in order:
                if not isinstance(r, ir.SymbolicDim):
                    break
                try:
                    r = r.evaluate({s: b[s]})
                except Exception as exc:  # noqa: BLE001
                    bad = Fail("partial", "raises:" + _exc_class(exc), binding={"order": order, **b}, want=want, exc=_exc(exc))
                    break
                bound.append(s)
                count("partial_steps")
                if isinstance(r, ir.SymbolicDim) and as_exact(r) is None:
                    try:
                        left = set(r.free_symbols())
                    except Exception as exc:  # noqa: BLE001
                        bad = Fail("partial", "free_symbols-raises:" + _exc_class(exc), binding={"order": order, **b}, exc=_exc(exc))
                        break
                    if left & set(bound):
                        bad = Fail("partial", "bound-symbol-remains", binding={"order": order, **b}, got=r, want=want)
                        break
                    if left and residual_for_reparse is None:
                        rest = {n: b[n] for n in names if n not in bound}
                        residual_for_reparse = (r, rest, want)
            if bad is None:
                got = as_exact(r)
                count("partial_compared")
                if got is None:
                    bad = Fail("partial", "non-numeric-result", binding={"order": order, **b}, got=r, want=want)
                elif got != want:
                    bad = Fail("partial", "wrong-value", binding={"order": order, **b}, got=r, want=want)
            if bad is not None:
                fails.append(bad)
                break

    # ---- print -> parse ---------------------------------------------------------------------------
    text_ok = True
    if "print-parse" in which or "serde" in which:
        pp = reparse_fails(e, in_dom, "", count if "print-parse" in which else _nocount)
        text_ok = not pp
        if "print-parse" in which:
            fails.extend(pp)
            if text_ok and residual_for_reparse is not None:
                r, rest, want = residual_for_reparse
                fails.extend(reparse_fails(r, [(rest, want)], "residual", count))

    # ---- simplify ---------------------------------------------------------------------------------
    if "simplify" in which:
        try:
            if via_shape:
                count("shape_simplify_calls")
                s = ir.Shape([3, e, "M"]).simplify()[1]
            else:
                count("simplify_calls")
                s = e.simplify()
        except Exception as exc:  # noqa: BLE001
            fails.append(Fail("simplify", "raises:" + _exc_class(exc), binding=in_dom[0][0], exc=_exc(exc)))
            s = None
        if s is not None:
            if not isinstance(s, ir.SymbolicDim):
                fails.append(Fail("simplify", "result-not-SymbolicDim:" + type(s).__name__))
            else:
                ok = True
                for b, want in in_dom:
                    try:
                        r = s.evaluate(b)
                    except Exception as exc:  # noqa: BLE001
                        fails.append(Fail("simplify", "evaluate-raises:" + _exc_class(exc), binding=b, want=want, exc=_exc(exc), text=str(s)))
                        ok = False
                        break
                    count("simplify_compared")
                    if as_exact(r) != want:
                        fails.append(Fail("simplify", "changes-evaluation", binding=b, got=r, want=want, text=str(s)))
                        ok = False
                        break
                if ok and text_ok and "print-parse" in which:
                    if str(s) != str(e):
                        count("simplify_changed_text")
                    fails.extend(reparse_fails(s, in_dom, "simplified", count))

    # ---- Shape.evaluate / free_symbols ------------------------------------------------------------
    if "shape" in which:
        shape = ir.Shape([e, 7, "M", None])
        for b, want in in_dom[:2]:
            try:
                se = shape.evaluate(b)
            except Exception as exc:  # noqa: BLE001
                fails.append(Fail("shape", "evaluate-raises:" + _exc_class(exc), binding=b, exc=_exc(exc)))
                break
            count("shape_evaluate_compared")
            problem = None
            if not isinstance(se, ir.Shape) or se.rank() != 4:
                problem = "evaluate:not-a-shape-of-same-rank"
            elif as_exact(se[0]) != want:
                problem = "evaluate:expression-dim"
            elif se[1] != 7 or not isinstance(se[1], int):
                problem = "evaluate:int-dim"
            elif se[2] != b["M"] or not isinstance(se[2], int):
                problem = "evaluate:named-dim"
            elif not (isinstance(se[3], ir.SymbolicDim) and se[3].value is None):
                problem = "evaluate:unknown-dim"
            if problem:
                fails.append(Fail("shape", problem, binding=b, got=list(se) if isinstance(se, ir.Shape) else se, want=want))
                break
        try:
            fs_shape, fs_dim = shape.free_symbols(), e.free_symbols()
            if set(fs_shape) != set(fs_dim) | {"M"}:
                fails.append(Fail("shape", "free_symbols-not-union", got=sorted(fs_shape), want=sorted(set(fs_dim) | {"M"})))
            if not set(fs_dim) <= set(X.symbols(t)):
                fails.append(Fail("shape", "free_symbols-invents-symbol", got=sorted(fs_dim), want=sorted(X.symbols(t))))
        except Exception as exc:  # noqa: BLE001
            fails.append(Fail("shape", "free_symbols-raises:" + _exc_class(exc), exc=_exc(exc)))

    # ---- serde round trip through dim_param ---------------------------------------------------------
    if "serde" in which and text_ok:
        shape = ir.Shape([e, 7, None, "M"])
        try:
            value = ir.Value(name="v", type=ir.TensorType(ir.DataType.FLOAT), shape=shape)
            data = ir_serde.serialize_value(value).SerializeToString()
            proto = onnx.ValueInfoProto()
            proto.ParseFromString(data)
            stored = proto.type.tensor_type.shape.dim[0]
            back = ir_serde.deserialize_value_info_proto(proto, None).shape
            count("serde_roundtrips")
            problem = None
            if stored.WhichOneof("value") != "dim_param":
                problem = "expression-not-stored-as-dim_param"
            elif back is None or back.rank() != 4:
                problem = "rank"
            elif back[1] != 7 or not (isinstance(back[2], ir.SymbolicDim) and back[2].value is None):
                problem = "other-dims"
            if problem:
                fails.append(Fail("serde", problem, text=str(e)))
            else:
                if stored.dim_param != str(e):
                    count("report_only_serde_text_differs")
                for b, want in in_dom:
                    r = back[0].evaluate(b) if isinstance(back[0], ir.SymbolicDim) else back[0]
                    count("serde_compared")
                    if as_exact(r) != want:
                        fails.append(Fail("serde", "value-changed", binding=b, got=r, want=want, text=stored.dim_param))
                        break
        except Exception as exc:  # noqa: BLE001
            fails.append(Fail("serde", "raises:" + _exc_class(exc), exc=_exc(exc), text=str(e)))
    elif "serde" in which:
        count("serde_skipped_text_already_failing")
    return fails


