import time, sys
from vfpy.ctx import Ctx
from vfpy.props import c15
ctx = Ctx("C15","quick",int(sys.argv[1]),0,1,10**9,1e9)
rb, rc = set(), set()
n=int(sys.argv[2])
for c in range(n):
    k=c%10
    if k<=3: c15.run_case_a(ctx,c)
    elif k<=7: c15.run_case_b(ctx,c,rb)
    else: c15.run_case_c(ctx,c,rc)
for v in ctx.violations:
    print(v['signature'], v['count']); print('   ', v['message'][:1500])
print({k:v for k,v in ctx.counters.items() if 'report_only' in k or 'precond' in k or 'unattrib' in k})
